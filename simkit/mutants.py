"""Sensitivity self-test: apply each /verif/mutants/*.patch to a scratch copy of /repo/src (outside /repo and
/verif, removed afterwards), point the corresponding quick check at it with VERIF_ANYIO_SRC and require a
VIOLATION (exit 1).  Writes /verif/evidence/mutants.json (a plain report, not a property evidence file).

usage: ./check selftest-mutants [name-substring ...] [--runs N]
"""
from __future__ import annotations

import json
import os
import shutil
import subprocess
import sys
import tempfile
import time

VERIF = os.path.dirname(os.path.dirname(os.path.abspath(__file__)))
EXPECTED_SURVIVORS = {"portal_call_runs_twice_on_retry": "control: the mutated branch is unreachable"}


def main(argv):
    runs = None
    if "--runs" in argv:
        i = argv.index("--runs")
        runs = argv[i + 1]
        argv = argv[:i] + argv[i + 2:]
    mdir = os.path.join(VERIF, "mutants")
    report = []
    bad = 0
    for fn in sorted(os.listdir(mdir)):
        if not fn.endswith(".patch"):
            continue
        name = fn[:-6]
        if argv and not any(a in name for a in argv):
            continue
        lines = open(os.path.join(mdir, fn)).read().splitlines()
        props = lines[0].replace("# props:", "").split()
        note = lines[1].lstrip("# ")
        work = tempfile.mkdtemp(prefix="/tmp/mutant.")
        try:
            shutil.copytree("/repo/src", os.path.join(work, "src"))
            r = subprocess.run(f"cd {work} && patch -p1 -s -F 3 < {os.path.join(mdir, fn)}", shell=True, capture_output=True, text=True)
            if r.returncode != 0:
                report.append({"mutant": name, "status": "patch does not apply", "detail": (r.stdout + r.stderr)[-300:]})
                bad += 1
                continue
            for prop in props:
                t0 = time.time()
                cmd = [os.path.join(VERIF, "check"), prop, "--no-evidence"] + (["--runs", runs] if runs else [])
                r = subprocess.run(cmd, env=dict(os.environ, VERIF_ANYIO_SRC=os.path.join(work, "src")),
                                   capture_output=True, text=True, timeout=1800)
                viol = [l for l in r.stdout.splitlines() if l.startswith("violated rule")]
                caught = r.returncode == 1
                expect_survive = name in EXPECTED_SURVIVORS
                status = "caught" if caught else ("survived (expected)" if expect_survive else "SURVIVED")
                if r.returncode == 2:
                    status = "HARNESS-ERROR"
                if status in ("SURVIVED", "HARNESS-ERROR") or (caught and expect_survive):
                    bad += 1
                report.append({"mutant": name, "property": prop, "note": note, "status": status, "exit": r.returncode,
                               "violated": viol[0][:240] if viol else None, "seconds": round(time.time() - t0, 1)})
                print(f"{name:45s} {prop} {status:20s} {(viol[0][14:150] if viol else '')}", flush=True)
        finally:
            shutil.rmtree(work, ignore_errors=True)
    os.makedirs(os.path.join(VERIF, "evidence"), exist_ok=True)
    out = os.path.join(VERIF, "evidence", "mutants.json")
    merged = report
    if argv and os.path.exists(out):      # a filtered run updates its own rows only
        present = {n[:-6] for n in os.listdir(mdir) if n.endswith(".patch")}
        old = [r for r in json.load(open(out))["mutants"] if r["mutant"] in present
               and not any(r["mutant"] == n["mutant"] and r.get("property") == n.get("property") for n in report)]
        merged = sorted(old + report, key=lambda r: (r["mutant"], r.get("property", "")))
    allbad = sum(1 for r in merged if r["status"] in ("SURVIVED", "HARNESS-ERROR", "patch does not apply")
                 or (r["status"] == "caught" and r["mutant"] in EXPECTED_SURVIVORS))
    json.dump({"mutants": merged, "unexpected": allbad}, open(out, "w"), indent=1)
    print(f"{len(report)} mutant x check pairs, {bad} unexpected outcomes")
    return 1 if bad else 0
