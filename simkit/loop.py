"""Virtual-time, seeded asyncio event loop (DESIGN.md 2.2).

The loop keeps asyncio's documented semantics (FIFO ready queue, batch = handles ready at the
start of the iteration, due timers appended after them in `when` order) and turns everything a
conforming loop / OS may decide into a seeded choice:

  S2  order of timers with *equal* deadline that fall due in the same iteration
  S3  late wake-ups (clock lands after the timer's deadline) and stalls (clock advances while
      callbacks are ready, as after a slow callback)
  S4  position of *external* callbacks (harness-owned, causally independent) in the ready queue

Nothing else is perturbed.  "Nothing ready and no timer" raises SimDeadlock, exceeding the
iteration cap raises IterationCap (both are oracle inputs, see DESIGN.md section 3).
"""
from __future__ import annotations

import asyncio
import heapq
from collections import Counter

__all__ = ["SimLoop", "SimDeadlock", "IterationCap", "LoopConfig"]


class SimDeadlock(BaseException):
    """Nothing runnable, no timer pending, nothing in flight: the program would block forever."""


class IterationCap(BaseException):
    """The per-run iteration budget was exhausted (busy loop or runaway program)."""


class LoopConfig:
    __slots__ = ("tie_shuffle", "p_late", "late_deltas", "p_stall", "stall_deltas", "cap", "eager")

    def __init__(self, tie_shuffle=True, p_late=0.0, late_deltas=(0.0625, 0.125, 0.5), p_stall=0.0,
                 stall_deltas=(0.25, 1.0, 4.0), cap=20000, eager=False):
        self.tie_shuffle = tie_shuffle
        self.p_late = p_late
        self.late_deltas = tuple(late_deltas)
        self.p_stall = p_stall
        self.stall_deltas = tuple(stall_deltas)
        self.cap = cap
        self.eager = eager

    def to_json(self):
        return {k: getattr(self, k) for k in self.__slots__}

    @classmethod
    def from_json(cls, d):
        return cls(**d)


class ExternalHandle(asyncio.TimerHandle):
    __slots__ = ()


class SimLoop(asyncio.BaseEventLoop):
    def __init__(self, rng, config: LoopConfig | None = None):
        super().__init__()
        self.rng = rng
        self.cfg = config or LoopConfig()
        self._vnow = 0.0
        self._clock_resolution = 1e-9
        self.iterations = 0
        self.stats = Counter()
        self.pre_iteration = []    # callables run at the start of every iteration
        self.post_iteration = []   # callables run at the end of every iteration
        self.clock_log = None      # optional list of (iteration, time)
        self._capped = False
        self._externals = []       # handles to be inserted at a seeded ready position
        self.idle_jumps = 0
        self.aborting = False      # set once SimDeadlock / IterationCap has been raised
        self.on_itercap = []       # callables run just before IterationCap is raised (diagnosis of the spinning tasks)
        if self.cfg.eager:
            self.set_task_factory(asyncio.eager_task_factory)
        self.handler_calls = []    # contexts passed to the loop's exception handler (not printed)
        self.set_exception_handler(self._collect_exception)

    def _collect_exception(self, loop, context):
        self.stats["loop_exception_handler"] += 1
        if len(self.handler_calls) < 20:
            self.handler_calls.append(f"{context.get('message')}: {context.get('exception')!r}")

    # -- clock ---------------------------------------------------------------------------
    def time(self):
        return self._vnow

    # -- plumbing BaseEventLoop expects --------------------------------------------------
    def _process_events(self, event_list):
        pass

    def _write_to_self(self):
        pass

    # -- harness API -----------------------------------------------------------------------
    def call_external_at(self, when, callback, *args):
        """Schedule a harness-owned callback that is causally independent of the program: when
        due it is inserted at a seeded position among the handles of that iteration (S4)."""
        h = ExternalHandle(when, callback, args, self, None)
        heapq.heappush(self._scheduled, h)
        h._scheduled = True
        return h

    # -- hooks for subclasses ----------------------------------------------------------------
    def _nothing_to_do(self):
        """Called when the ready queue and the timer heap are both empty."""
        self.aborting = True
        raise SimDeadlock(f"nothing runnable at t={self._vnow} iteration={self.iterations}")

    def _before_batch(self):
        """Subclass hook: runs after timers were moved to the ready queue."""

    # -- the iteration ---------------------------------------------------------------------------
    def _run_once(self):
        self.iterations += 1
        if self.iterations > self.cfg.cap:
            if not self._capped:
                self._capped = True
                self.cfg.cap += 2000          # grace for the shutdown phase
                self.aborting = True
                for hook in self.on_itercap:
                    hook()
                raise IterationCap(f"iteration cap reached at t={self._vnow}")
            raise RuntimeError("iteration cap exceeded twice")
        for hook in self.pre_iteration:
            hook()
        sched = self._scheduled
        while sched and sched[0]._cancelled:
            self._timer_cancelled_count -= 1
            h = heapq.heappop(sched)
            h._scheduled = False
        rng = self.rng
        cfg = self.cfg
        if not self._ready and not self._stopping:
            if not sched:
                self._nothing_to_do()
                sched = self._scheduled
            if not self._ready and sched:
                target = sched[0]._when
                if target > self._vnow:
                    self.idle_jumps += 1
                    self._vnow = target
                    if cfg.p_late and rng.random() < cfg.p_late:
                        self._vnow += rng.choice(cfg.late_deltas)
                        self.stats["late_wakeup"] += 1
        elif cfg.p_stall and self._ready and rng.random() < cfg.p_stall:
            self._vnow += rng.choice(cfg.stall_deltas)
            self.stats["stall"] += 1
        if self.clock_log is not None:
            self.clock_log.append((self.iterations, self._vnow))
        end = self._vnow + self._clock_resolution
        due = []
        while sched:
            h = sched[0]
            if h._when >= end:
                break
            h = heapq.heappop(sched)
            h._scheduled = False
            if h._cancelled:
                self._timer_cancelled_count -= 1
                continue
            due.append(h)
        if len(due) > 1:
            # heappop gives `when` order; among equal `when` the order is unspecified -> seeded
            due.sort(key=_when)
            if cfg.tie_shuffle:
                i = 0
                n = len(due)
                while i < n:
                    j = i + 1
                    w = due[i]._when
                    while j < n and due[j]._when == w:
                        j += 1
                    if j - i > 1:
                        grp = due[i:j]
                        rng.shuffle(grp)
                        due[i:j] = grp
                        self.stats["timer_tie"] += 1
                    i = j
        ready = self._ready
        for h in due:
            if isinstance(h, ExternalHandle):
                pos = rng.randint(0, len(ready))
                ready.insert(pos, h)
                self.stats["external_cb"] += 1
            else:
                ready.append(h)
        self._before_batch()
        ntodo = len(ready)
        for _ in range(ntodo):
            h = ready.popleft()
            if h._cancelled:
                continue
            h._run()
        h = None
        for hook in self.post_iteration:
            hook()


def _when(h):
    return h._when
