"""Insertion-ordered replacement for `set` inside anyio._backends._asyncio (DESIGN.md 2.1, S5).

On the real tree the order in which a cancelled scope walks its tasks / child scopes is the
iteration order of a set of objects hashed by address - i.e. arbitrary.  SimSet makes that order a
seeded decision: replayable, and every order is explored.
"""
from __future__ import annotations

_RNG = None
_STATS = None


def set_rng(rng, stats=None):
    global _RNG, _STATS
    _RNG = rng
    _STATS = stats


class SimSet:
    __slots__ = ("d",)

    def __init__(self, it=()):
        self.d = dict.fromkeys(it)

    def add(self, x):
        self.d[x] = None

    def discard(self, x):
        self.d.pop(x, None)

    def remove(self, x):
        del self.d[x]

    def pop(self):
        return self.d.popitem()[0]

    def clear(self):
        self.d.clear()

    def copy(self):
        return SimSet(self.d)

    def update(self, it):
        for x in it:
            self.d[x] = None

    def __contains__(self, x):
        return x in self.d

    def __len__(self):
        return len(self.d)

    def __bool__(self):
        return bool(self.d)

    def __iter__(self):
        ks = list(self.d)
        if _RNG is not None and len(ks) > 1:
            _RNG.shuffle(ks)
            if _STATS is not None:
                _STATS["set_order"] += 1
        return iter(ks)

    def __repr__(self):
        return "SimSet(%r)" % (list(self.d),)

    def __or__(self, other):
        r = SimSet(self.d)
        r.update(other)
        return r

    def __sub__(self, other):
        return SimSet(k for k in self.d if k not in other)

    def __eq__(self, other):
        try:
            return set(self.d) == set(other)
        except TypeError:
            return NotImplemented

    __hash__ = None


def install():
    import anyio._backends._asyncio as A

    A.set = SimSet
