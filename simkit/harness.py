"""Helpers shared by the engines: running a coroutine on a SimLoop through anyio.run's public
loop_factory seam, history recording and digests."""
from __future__ import annotations

import gc
import hashlib
import os
import random
import sys
from collections import Counter

# Import anyio from /repo's *current working tree* (or from VERIF_ANYIO_SRC for self-tests on
# scratch copies).  Nothing is built or cached: every check sees the tree as it is now.
_SRC = os.environ.get("VERIF_ANYIO_SRC", "/repo/src")
if _SRC not in sys.path:
    sys.path.insert(0, _SRC)

import anyio  # noqa: E402

from . import simset  # noqa: E402
from .loop import IterationCap, LoopConfig, SimDeadlock, SimLoop  # noqa: E402

simset.install()
_RUNS = 0

assert os.path.abspath(anyio.__file__).startswith(os.path.abspath(_SRC)), (anyio.__file__, _SRC)


class History:
    """Append-only record list with a global sequence number, the loop iteration and the
    virtual time stamped on every record."""

    __slots__ = ("recs", "loop", "seq")

    def __init__(self):
        self.recs = []
        self.loop = None
        self.seq = 0

    def rec(self, *fields):
        lp = self.loop
        if lp is not None and lp.aborting:
            # the run is being torn down after a deadlock / iteration-cap report: asyncio cancels the
            # remaining tasks in set order, which is not part of the simulated execution
            return (self.seq, lp.iterations, lp._vnow) + fields
        self.seq += 1
        r = (self.seq, lp.iterations if lp else 0, lp._vnow if lp else 0.0) + fields
        self.recs.append(r)
        return r

    def digest(self, extra=()):
        h = hashlib.sha1()
        for r in self.recs:
            h.update(repr(r).encode())
        h.update(repr(extra).encode())
        return h.hexdigest()

    def text(self, limit=400):
        return ["%d it=%d t=%g %s" % (r[0], r[1], r[2], " ".join(map(str, r[3:]))) for r in self.recs[:limit]]


class SimRun:
    """One simulated execution: owns the PRNGs (all derived from the case's integer seed), the
    loop and the fault counters."""

    def __init__(self, sched_seed: int, loop_cfg: LoopConfig | None = None, loop_cls=SimLoop):
        self.sched_seed = sched_seed
        self.rng_loop = random.Random(f"loop:{sched_seed}")
        self.rng_set = random.Random(f"set:{sched_seed}")
        self.loop_cfg = loop_cfg or LoopConfig()
        self.loop_cls = loop_cls
        self.loop = None
        self.faults = Counter()
        self.outcome = None       # 'ok' | 'deadlock' | 'itercap' | 'exc'
        self.error = None

    def _factory(self):
        self.loop = self.loop_cls(self.rng_loop, self.loop_cfg)
        return self.loop

    def run(self, main, *args):
        """Run `main` under anyio.run on the simulated loop.  Returns main's result or None."""
        simset.set_rng(self.rng_set, self.faults)
        gc_was = gc.isenabled()
        gc.disable()
        try:
            try:
                res = anyio.run(main, *args, backend="asyncio", backend_options={"loop_factory": self._factory})
                self.outcome = "ok"
                return res
            except SimDeadlock as e:
                self.outcome = "deadlock"
                self.error = e
            except IterationCap as e:
                self.outcome = "itercap"
                self.error = e
            except Exception as e:
                # an exception escaped the simulated program: the engines decide whether that is a
                # violation (unexpected error out of legitimate API use) or a harness bug
                self.outcome = "exc"
                self.error = e
        finally:
            simset.set_rng(None)
            if self.loop is not None:
                self.faults.update(self.loop.stats)
            if gc_was:
                gc.enable()
            global _RUNS
            _RUNS += 1
            if _RUNS % 40 == 0:
                gc.collect()
        return None


def leaves(exc):
    if exc is None:
        return
    if isinstance(exc, BaseExceptionGroup):
        for e in exc.exceptions:
            yield from leaves(e)
    else:
        yield exc


def fmt_inf(x):
    return "inf" if x == float("inf") else x


def parse_inf(x):
    return float("inf") if x == "inf" else x
