"""Self-test: SimLoop's re-implementation of _run_once has the stock batch semantics.

Timer-free structured-concurrency programs (every duration 0, no deadlines, no external callbacks) are run
once on SimLoop with all perturbations off and once on the real asyncio.SelectorEventLoop; the two event
histories (kind, task, operation, outcome, scope - without times and iteration numbers) must be identical.
usage: ./check selftest-loop [-n N]
"""
from __future__ import annotations

import asyncio
import copy
import random
import sys


def strip(prog):
    out = []
    for st in prog:
        st = copy.deepcopy(st)
        k = st[0]
        if k == "sleep":
            st[1] = 0
        elif k == "scope":
            st[2]["deadline"] = None
            st[3] = strip(st[3])
        elif k in ("deadline", "atimeout", "wait", "join"):
            continue          # anything that could wait for a timer or for real time
        elif k == "group":
            st[2] = strip(st[2])
        elif k in ("spawn", "start"):
            st[3] = strip(st[3])
        elif k == "tryfin":
            st[1] = strip(st[1])
            st[3] = 0
        out.append(st)
    return out


class RealLoop(asyncio.SelectorEventLoop):
    """The stock loop, with the counters the interpreter reads."""

    iterations = 0
    _vnow = 0.0
    aborting = False

    def __init__(self):
        super().__init__()
        self.stats = {}
        self.on_itercap = []

    def call_external_at(self, when, cb, *a):
        return self.call_at(when, cb, *a)


def main(argv):
    n = 300
    if "-n" in argv:
        n = int(argv[argv.index("-n") + 1])
    from engines import sc
    from simkit import harness, simset
    from simkit.loop import LoopConfig
    bad = 0
    done = 0
    for i in range(n):
        case = sc.gen_case(random.Random(f"looptest:{i}").getrandbits(48), "quick", "C03")
        case["prog"] = strip(case["prog"])
        case["ext"] = []
        case["loop"] = LoopConfig(tie_shuffle=False, eager=case["loop"]["eager"], cap=50000).to_json()
        r1 = sc.SCRun(copy.deepcopy(case))
        res1 = r1.execute()
        h1 = [(r["kind"], r["tid"], r.get("op"), r.get("out"), r.get("sid"), r.get("gid"), r.get("target")) for r in r1.hist]
        # the same case on the real loop
        r2 = sc.SCRun(copy.deepcopy(case))
        eager = case["loop"]["eager"]

        def factory():
            lp = RealLoop()
            if eager:
                lp.set_task_factory(asyncio.eager_task_factory)
            r2.sim.loop = lp
            return lp
        r2.sim._factory = factory
        r2.execute()
        h2 = [(r["kind"], r["tid"], r.get("op"), r.get("out"), r.get("sid"), r.get("gid"), r.get("target")) for r in r2.hist]
        done += 1
        if h1 != h2:
            bad += 1
            k = 0
            while k < min(len(h1), len(h2)) and h1[k] == h2[k]:
                k += 1
            print(f"case {i}: histories differ at record {k}: SimLoop {h1[k:k + 2]} vs stock loop {h2[k:k + 2]}")
            if bad > 3:
                break
    print(f"selftest-loop: {done} timer-free programs, {bad} differing histories")
    return 2 if bad else 0
