"""Deterministic-simulation kit for anyio's asyncio backend (see /verif/DESIGN.md)."""
