"""Baton-passing scheduler for real threads (DESIGN.md 2.3).

Real threading.Threads, but exactly one *managed* thread runs at any time.  Every managed thread owns a
semaphore; `yield_point()` lets the seeded scheduler pick the next runnable thread, `block_until(pred)`
parks the caller until its predicate holds.  All blocking primitives on the paths under test are replaced
by predicate parks (queue.get of anyio's worker threads, concurrent.futures.Future.result/exception,
Thread.join, harness gates), so the simulator - not the OS - decides every interleaving, and "every thread
parked, no timer" is detected as a deadlock instead of hanging.

The loop thread runs a BatonLoop (a SimLoop): it parks when it has nothing ready, and the virtual clock may
only advance when no other thread is runnable.
"""
from __future__ import annotations

import concurrent.futures
import sys
import threading
import zlib
from collections import deque

from .loop import SimDeadlock, SimLoop


class BatonAbort(BaseException):
    """Raised inside parked threads when the run is torn down (deadlock found / run finished)."""


class Rec:
    __slots__ = ("name", "sem", "pred", "done", "tag", "index", "is_loop")

    def __init__(self, name, index):
        self.name = name
        self.sem = threading.Semaphore(0)
        self.pred = None
        self.done = False
        self.tag = ""
        self.index = index
        self.is_loop = False


class Sched:
    def __init__(self, rng, stats):
        self.rng = rng
        self.seed_int = rng.getrandbits(60)
        self.occ = {}
        self.stats = stats
        self.order = []          # registration order = deterministic identity of threads
        self.cur = None
        self.log = []
        self.aborted = False
        self.by_ident = {}
        self.decisions = 0
        self.deadlock = None     # description of the deadlock that ended the run, if any
        self.thread_errors = []
        self.on_deadlock = []    # callables run at the instant a deadlock is detected (before threads are torn down)
        self.on_switch = None    # callable(thread, "file:line:function", next thread): a line pre-emption switched threads
        self.line_ord = 0        # ordinal of the current line pre-emption point (those that passed the probability draw)
        self.suppress = frozenset()   # ordinals at which no scheduling point is taken (schedule minimisation)
        self.switch_ords = []    # ordinals at which a line pre-emption really switched threads
        self.preempt = 0.0       # probability of a scheduling point at each traced line of anyio's thread-crossing code

    # -- registration -------------------------------------------------------------------------
    def _new(self, name):
        rec = Rec(f"{name}#{len(self.order)}", len(self.order))
        self.order.append(rec)
        return rec

    def register_current(self, name):
        rec = self._new(name)
        self.cur = rec
        self.by_ident[threading.get_ident()] = rec
        return rec

    def me(self):
        return self.by_ident.get(threading.get_ident())

    def managed(self):
        return (not self.aborted) and threading.get_ident() in self.by_ident

    # -- scheduling ---------------------------------------------------------------------------
    def runnable(self):
        return [r for r in self.order if not r.done and (r.pred is None or r.pred())]

    def _pick(self, cands, tag):
        """Which thread runs next.  The decision is a function of (seed, deciding thread, kind of scheduling point, how
        often this thread has been at this kind of point) - not the next value of a sequential PRNG - so that removing
        an operation or a pre-emption elsewhere leaves the decisions at all other points unchanged.  That is what makes
        shrinking of races work: a candidate differs from the failing run only where it was changed."""
        if len(cands) == 1:
            return cands[0]
        self.decisions += 1
        rec = self.cur
        k = (rec.index if rec is not None else -1, zlib.crc32(tag.encode()))
        occ = self.occ.get(k, 0)
        self.occ[k] = occ + 1
        return cands[hash((self.seed_int, k[0], k[1], occ)) % len(cands)]

    def coin(self, key, p):
        """Position-keyed biased coin (see _pick): key is a tuple of ints."""
        occ = self.occ.get(key, 0)
        self.occ[key] = occ + 1
        return (hash((self.seed_int, 7919) + key + (occ,)) & 0xFFFFFF) < p * 0x1000000

    def yield_point(self, tag=""):
        if self.aborted:
            raise BatonAbort()
        rec = self.cur
        cands = self.runnable()
        nxt = self._pick(cands, tag)
        self.log.append((rec.index, tag, nxt.index))
        if nxt is not rec:
            self.stats["thread_preempt"] += 1
            if tag.startswith("line:"):
                self.switch_ords.append(self.line_ord)
                if self.on_switch is not None:
                    self.on_switch(rec.name, tag[5:], nxt.name)
            self._transfer(rec, nxt)

    def block_until(self, pred, tag=""):
        if self.aborted:
            raise BatonAbort()
        rec = self.cur
        if pred():
            # no need to park, but it still is a scheduling point
            self.yield_point(tag)
            return
        rec.pred = pred
        rec.tag = tag
        try:
            cands = self.runnable()
            if not cands:
                self.deadlock = "all threads are blocked: " + ", ".join(
                    f"{r.name}[{r.tag}]" for r in self.order if not r.done)
                for hook in self.on_deadlock:
                    hook()
                self.abort()
                raise BatonAbort()
            nxt = self._pick(cands, tag)
            self.log.append((rec.index, "park:" + tag, nxt.index))
            if nxt is not rec:
                self._transfer(rec, nxt)
        finally:
            rec.pred = None
            rec.tag = ""

    def _transfer(self, rec, nxt):
        self.cur = nxt
        nxt.sem.release()
        if not rec.done:
            rec.sem.acquire()
            if self.aborted:
                raise BatonAbort()

    def thread_begin(self, rec):
        self.by_ident[threading.get_ident()] = rec
        rec.sem.acquire()
        if self.preempt:
            sys.settrace(_global_trace)
        if self.aborted:
            raise BatonAbort()

    def thread_end(self):
        sys.settrace(None)
        rec = self.me()
        if rec is None:
            return
        rec.done = True
        if self.aborted:
            return
        cands = self.runnable()
        if not cands:
            if all(r.done for r in self.order):
                return
            self.deadlock = "a thread ended and all remaining threads are blocked: " + ", ".join(
                f"{r.name}[{r.tag}]" for r in self.order if not r.done)
            for hook in self.on_deadlock:
                hook()
            self.abort()
            return
        nxt = self._pick(cands, "end")
        self.log.append((rec.index, "end", nxt.index))
        self.cur = nxt
        nxt.sem.release()

    def abort(self):
        """Release every parked thread; each raises BatonAbort when it wakes up."""
        if not self.aborted:
            self.aborted = True
            for r in self.order:
                if not r.done:
                    r.sem.release()
                    r.sem.release()

    def others_runnable(self, rec):
        for r in self.order:
            if r is not rec and not r.done and (r.pred is None or r.pred()):
                return True
        return False

    def all_others_done(self, rec):
        return all(r.done for r in self.order if r is not rec)


S: Sched | None = None

# ------------------------------------------------------------------------------------------
# line-level pre-emption (sys.settrace) inside anyio's code that is shared between threads
# ------------------------------------------------------------------------------------------
_TRACE_ALL = ("anyio/from_thread.py", "anyio/to_thread.py")
_TRACE_ASYNCIO_QUAL = ("WorkerThread.", "AsyncIOBackend.run_sync_in_worker_thread", "AsyncIOBackend.run_async_from_thread",
                       "AsyncIOBackend.run_sync_from_thread", "AsyncIOBackend.check_cancelled", "_forcibly_shutdown")
_NO_TRACE_QUAL = ("BlockingPortalProvider",)      # holds a real threading.Lock: parking inside it could block for real
_trace_cache: dict = {}


def _wants_trace(code):
    fn = code.co_filename.replace("\\", "/")
    q = code.co_qualname
    if q.startswith(_NO_TRACE_QUAL):
        return False
    if fn.endswith(_TRACE_ALL):
        return True
    if fn.endswith("anyio/_backends/_asyncio.py"):
        return q.startswith(_TRACE_ASYNCIO_QUAL)
    return False


_code_ids: dict = {}


def _code_id(code):
    i = _code_ids.get(code)
    if i is None:
        i = _code_ids[code] = zlib.crc32(f"{code.co_filename.rsplit('/', 1)[-1]}:{code.co_qualname}".encode())
    return i


def _global_trace(frame, event, arg):
    if event != "call":
        return None
    code = frame.f_code
    t = _trace_cache.get(code)
    if t is None:
        t = _trace_cache[code] = _wants_trace(code)
    return _local_trace if t else None


def _local_trace(frame, event, arg):
    if event == "line":
        s = S
        if s is not None and s.preempt and not s.aborted and s.cur is s.by_ident.get(threading.get_ident()):
            code = frame.f_code
            if s.coin((s.cur.index, _code_id(code), frame.f_lineno), s.preempt):
                s.line_ord += 1
                if s.line_ord in s.suppress:
                    return _local_trace
                s.stats["line_preempt_point"] += 1
                s.yield_point(f"line:{code.co_filename.rsplit('/', 1)[-1]}:{frame.f_lineno}:{code.co_name}")
    return _local_trace


def active():
    return S is not None and S.managed()


# ------------------------------------------------------------------------------------------
# replacements for blocking primitives
# ------------------------------------------------------------------------------------------
class SimQueue:
    """Stands in for queue.Queue in anyio's WorkerThread (get / put_nowait / task_done are all it uses)."""

    def __init__(self, maxsize=0):
        self.q = deque()

    def get(self):
        if active():
            if S.cur.is_loop:
                raise RuntimeError("queue.get on the loop thread")
            S.block_until(lambda: bool(self.q), "queue.get")
        return self.q.popleft()

    def put_nowait(self, item):
        self.q.append(item)
        if active():
            S.stats["queue_put"] += 1

    def task_done(self):
        pass


class SimThread(threading.Thread):
    """threading.Thread whose start/run/join go through the scheduler (used for portal and caller threads)."""

    def start(self):
        if S is not None and not S.aborted:
            self._rec = S._new(getattr(self, "sim_name", None) or "thread")
            self._sched = S
            self.daemon = True
        else:
            self._rec = None
        super().start()
        if self._rec is not None and active():
            S.yield_point("thread.start")

    def run(self):
        rec = getattr(self, "_rec", None)
        if rec is None:
            return super().run()
        sched = self._sched
        try:
            sched.thread_begin(rec)
            super().run()
        except BatonAbort:
            pass
        finally:
            sched.thread_end()

    def join(self, timeout=None):
        rec = getattr(self, "_rec", None)
        if rec is not None and active() and self._sched is S:
            S.block_until(lambda: rec.done, "join")
            return
        super().join(timeout)


_orig_result = concurrent.futures.Future.result
_orig_exception = concurrent.futures.Future.exception


def _result(self, timeout=None):
    if active() and not self.done():
        S.block_until(self.done, "future.result")
    elif active():
        S.yield_point("future.result")
    return _orig_result(self, timeout)


def _exception(self, timeout=None):
    if active() and not self.done():
        S.block_until(self.done, "future.exception")
    return _orig_exception(self, timeout)


class BatonLoop(SimLoop):
    """SimLoop whose thread is one of the managed threads."""

    def __init__(self, rng, config=None):
        super().__init__(rng, config)
        self.rec = None
        self.closed_calls = 0

    def _bind(self):
        if self.rec is None and S is not None:
            self.rec = S.me()
            if self.rec is not None:
                self.rec.is_loop = True

    def call_soon_threadsafe(self, callback, *args, context=None):
        sched = S
        if sched is not None and sched.managed() and sched.me() is not self.rec:
            sched.yield_point("call_soon_threadsafe")
            sched.stats["threadsafe_call"] += 1
        self._check_closed()
        return self._call_soon(callback, args, context)

    def _run_once(self):
        self._bind()
        sched = S
        if sched is not None and sched.managed() and self.rec is not None:
            sched.yield_point("iteration")
            if not self._ready and not self._stopping:
                rec = self.rec
                if sched.others_runnable(rec) or not self._scheduled:
                    # wait until a thread posts something, or until everybody else is parked (only then may
                    # the virtual clock advance); nobody runnable and no timer is a deadlock
                    sched.block_until(lambda: bool(self._ready) or self._stopping
                                      or (bool(self._scheduled) and not sched.others_runnable(rec)), "loop idle")
        super()._run_once()

    def close(self):
        sched = S
        if sched is not None and sched.managed() and sched.me() is self.rec:
            sched.yield_point("loop.close")      # the window between the last iteration and close()
        super().close()


_installed = False


def install():
    """Patch the blocking seams once per process (inert unless a Sched is active and the calling thread is managed)."""
    global _installed
    if _installed:
        return
    _installed = True
    import anyio._backends._asyncio as A
    import anyio.from_thread as FT

    import logging

    class _Count(logging.Handler):
        # concurrent.futures logs (and swallows) exceptions raised by done-callbacks; count them instead of printing
        def emit(self, record):
            if S is not None:
                S.stats["future_callback_exception_logged"] += 1
    lg = logging.getLogger("concurrent.futures")
    lg.addHandler(_Count())
    lg.propagate = False
    concurrent.futures.Future.result = _result
    concurrent.futures.Future.exception = _exception
    FT.Thread = SimThread
    A.Queue = SimQueue
    WT = A.WorkerThread
    o_start, o_run = WT.start, WT.run

    def start(self):
        if S is not None and not S.aborted:
            self._rec = S._new("worker")
            self._sched = S
            self.daemon = True
        else:
            self._rec = None
        o_start(self)

    def run(self):
        rec = getattr(self, "_rec", None)
        if rec is None:
            return o_run(self)
        sched = self._sched
        try:
            sched.thread_begin(rec)
            o_run(self)
        except BatonAbort:
            pass
        finally:
            sched.thread_end()

    WT.start = start
    WT.run = run


def _excepthook(args):
    # exceptions that kill a managed thread are recorded, not printed (the engines decide what they mean)
    sched = S
    if isinstance(args.exc_value, BatonAbort):
        return
    if sched is not None:
        sched.stats["thread_died_with_exception"] += 1
        sched.thread_errors.append(f"{type(args.exc_value).__name__}: {args.exc_value}")
        return
    _orig_excepthook(args)


_orig_excepthook = threading.excepthook


def begin(rng, stats, main_name="main", preempt=0.0, suppress=()):
    global S
    install()
    threading.excepthook = _excepthook
    S = Sched(rng, stats)
    S.preempt = preempt
    S.suppress = frozenset(suppress)
    S.register_current(main_name)
    if preempt:
        sys.settrace(_global_trace)
    return S


def finish(wait=True):
    """Let every other managed thread run to its end, then deactivate the scheduler."""
    global S
    sched = S
    if sched is None:
        return
    sys.settrace(None)
    try:
        if wait and not sched.aborted:
            me = sched.me()
            sched.block_until(lambda: sched.all_others_done(me), "final join")
    finally:
        sched.abort()
        S = None
