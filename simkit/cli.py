"""./check entry point: maps a property id to its check object and hands over to the runner."""
from __future__ import annotations

import functools
import sys


def factory(prop):
    if prop in ("C09", "C10"):
        from engines.permits import PermitCheck
        return PermitCheck(prop)
    if prop in ("C01", "C02", "C03", "C04", "C05", "C07"):
        from engines.sc import SCCheck
        return SCCheck(prop)
    if prop == "C11":
        from engines.conds import CondCheck
        return CondCheck()
    if prop == "C08":
        from engines.checkpoints import CheckpointCheck
        return CheckpointCheck()
    if prop in ("C12", "C13"):
        from engines.mem import MemCheck
        return MemCheck(prop)
    if prop == "C06":
        from engines.deadlines import DeadlineCheck
        return DeadlineCheck()
    if prop == "C19":
        from engines.func_iter import IterCheck
        return IterCheck()
    if prop == "C20":
        from engines.func_lru import LruCheck
        return LruCheck()
    if prop == "C16":
        from engines.bytes_buffered import BufferedCheck
        return BufferedCheck()
    if prop == "C17":
        from engines.bytes_tls import TLSCheck
        return TLSCheck()
    if prop == "C18":
        from engines.bytes_sock import SockCheck
        return SockCheck()
    if prop == "C14":
        from engines.threads_to import ToThreadCheck
        return ToThreadCheck()
    if prop == "C15":
        from engines.threads_portal import PortalCheck
        return PortalCheck()
    raise SystemExit(f"unknown property {prop}")


def main():
    if len(sys.argv) < 2:
        raise SystemExit(__doc__)
    prop = sys.argv[1]
    if prop.startswith("selftest"):
        from simkit import selftest
        return selftest.main(prop, sys.argv[2:])
    from simkit import runner
    return runner.main(functools.partial(factory, prop), sys.argv[2:])


if __name__ == "__main__":
    sys.exit(main())
