"""Simulated kernel sockets and the I/O-capable simulated loop (DESIGN.md 2.4).

SimSocket pairs are two directional pipes with a bounded receive buffer, bytes *in flight* (segments
that become readable after a seeded virtual delay), EOF / reset flags, seeded short reads, short
writes and spurious EAGAIN.  SimIOLoop provides add_reader/add_writer on top of SimLoop: readiness is
recomputed every iteration and the ready callbacks are queued in a seeded order.  The real
asyncio.selector_events._SelectorSocketTransport runs unchanged on a SimSocket, so stock flow-control
code (pause/resume reading and writing, write buffering) is real; only the kernel is a stub.
"""
from __future__ import annotations

import asyncio
import errno
import socket
import weakref

from .loop import SimDeadlock, SimLoop


class Pipe:
    __slots__ = ("buf", "cap", "flight", "eof", "eof_at", "reader_closed", "reset")

    def __init__(self, cap):
        self.buf = bytearray()
        self.cap = cap
        self.flight = []            # [(arrival_time, bytes)]
        self.eof = False            # writer shut down (takes effect once everything in flight has arrived)
        self.reader_closed = False
        self.reset = False


class Kernel:
    def __init__(self, rng, loop, cfg, stats):
        self.rng = rng
        self.loop = loop
        self.cfg = cfg              # dict: short_read, short_write, eagain (probabilities), delays (list)
        self.stats = stats
        self.socks = {}
        self.blocking_calls = []      # (fd, call) of would-block calls made on a socket that was left in blocking mode
        self.next_fd = 1000

    def pair(self, cap_ab, cap_ba, family=socket.AF_UNIX):
        a, b = Pipe(cap_ab), Pipe(cap_ba)
        s1 = SimSocket(self, rx=b, tx=a, family=family)
        s2 = SimSocket(self, rx=a, tx=b, family=family)
        return s1, s2

    def settle(self, pipe):
        """Move in-flight segments whose arrival time has come into the receive buffer."""
        if pipe.flight:
            now = self.loop.time()
            while pipe.flight and pipe.flight[0][0] <= now:
                pipe.buf += pipe.flight.pop(0)[1]

    def next_arrival(self):
        """Earliest future arrival of in-flight bytes (everything already due is moved to the buffers first)."""
        t = None
        for s in self.socks.values():
            p = s.rx
            if p.flight:
                self.settle(p)
                if p.flight and (t is None or p.flight[0][0] < t):
                    t = p.flight[0][0]
        return t


class SimSocket:
    type = socket.SOCK_STREAM
    proto = 0

    def __init__(self, kern, rx, tx, family):
        self.kern = kern
        self.rx = rx
        self.tx = tx
        self.family = family
        kern.next_fd += 1
        self._fd = kern.next_fd
        kern.socks[self._fd] = self
        self.closed = False
        self._blocking = False      # as created by the harness; the from_socket() kinds hand over a blocking socket object

    @property
    def __class__(self):
        # isinstance(sock, socket.socket) is what anyio's from_socket() constructors check
        return socket.socket

    # -- the socket API used by asyncio transports and anyio's raw socket streams ------------------
    def fileno(self):
        return -1 if self.closed else self._fd

    def getsockname(self):
        return "sim" if self.family == socket.AF_UNIX else ("127.0.0.1", self._fd)

    def getpeername(self):
        return "sim-peer" if self.family == socket.AF_UNIX else ("127.0.0.1", self._fd ^ 1)

    def setblocking(self, flag):
        self._blocking = bool(flag)

    def settimeout(self, t):
        self._blocking = t is None or t > 0

    def getblocking(self):
        return self._blocking

    def _would_block(self, what):
        # on a socket left in blocking mode the call would not return: the whole event loop thread would freeze
        if self._blocking:
            self.kern.blocking_calls.append((self._fd, what))
        return BlockingIOError(errno.EAGAIN, "would block")

    def getsockopt(self, *a):
        return 0

    def setsockopt(self, *a):
        pass

    def _in_flight(self, pipe):
        return sum(len(b) for _, b in pipe.flight)

    def recv(self, n):
        if self.closed:
            raise OSError(errno.EBADF, "Bad file descriptor")
        k = self.kern
        rx = self.rx
        k.settle(rx)
        if rx.reset:
            raise ConnectionResetError(errno.ECONNRESET, "Connection reset by peer")
        if not rx.buf:
            if rx.eof and not rx.flight:
                return b""
            raise self._would_block("recv")
        if k.cfg["eagain"] and k.rng.random() < k.cfg["eagain"]:
            k.stats["eagain"] += 1
            raise BlockingIOError(errno.EAGAIN, "would block (spurious)")
        m = min(n, len(rx.buf))
        if m > 1 and k.cfg["short_read"] and k.rng.random() < k.cfg["short_read"]:
            m = k.rng.randint(1, m - 1)
            k.stats["short_read"] += 1
        out = bytes(rx.buf[:m])
        del rx.buf[:m]
        return out

    def recv_into(self, buf):
        data = self.recv(len(buf))
        buf[:len(data)] = data
        return len(data)

    def send(self, data):
        if self.closed:
            raise OSError(errno.EBADF, "Bad file descriptor")
        k = self.kern
        tx = self.tx
        if tx.reader_closed or tx.reset:
            raise BrokenPipeError(errno.EPIPE, "Broken pipe")
        if tx.eof:
            raise BrokenPipeError(errno.EPIPE, "Broken pipe (shut down for writing)")
        k.settle(tx)
        free = tx.cap - len(tx.buf) - self._in_flight(tx)
        if free <= 0:
            raise self._would_block("send")
        if k.cfg["eagain"] and k.rng.random() < k.cfg["eagain"]:
            k.stats["eagain"] += 1
            raise BlockingIOError(errno.EAGAIN, "would block (spurious)")
        m = min(len(data), free)
        if m > 1 and k.cfg["short_write"] and k.rng.random() < k.cfg["short_write"]:
            m = k.rng.randint(1, m - 1)
            k.stats["short_write"] += 1
        if m < len(data):
            k.stats["partial_write"] += 1
        d = k.rng.choice(k.cfg["delays"])
        chunk = bytes(data[:m])
        if d or tx.flight:
            at = k.loop.time() + d
            if tx.flight and tx.flight[-1][0] > at:
                at = tx.flight[-1][0]          # a stream never reorders
            tx.flight.append((at, chunk))
            k.stats["in_flight_delay"] += 1
        else:
            tx.buf += chunk
        return m

    def sendmsg(self, buffers, *a):
        return self.send(b"".join(bytes(b) for b in buffers))

    def shutdown(self, how):
        if self.closed:
            raise OSError(errno.EBADF, "Bad file descriptor")
        if how in (socket.SHUT_WR, socket.SHUT_RDWR):
            self.tx.eof = True

    def close(self):
        if not self.closed:
            self.closed = True
            self.tx.eof = True
            self.rx.reader_closed = True

    def detach(self):
        return self._fd

    # -- harness-side faults -------------------------------------------------------------------------
    def abort(self):
        """Simulate the peer process dying: RST in both directions."""
        self.kern.stats["peer_abort"] += 1
        self.tx.reset = True
        self.rx.reset = True

    # -- readiness -------------------------------------------------------------------------------------
    def readable(self):
        self.kern.settle(self.rx)
        if self.closed:
            return False        # a closed descriptor silently drops out of the poller (epoll semantics)
        return bool(self.rx.buf) or (self.rx.eof and not self.rx.flight) or self.rx.reset

    def writable(self):
        tx = self.tx
        self.kern.settle(tx)
        if self.closed:
            return False
        return (tx.cap - len(tx.buf) - self._in_flight(tx) > 0) or tx.reader_closed or tx.reset or tx.eof


class _NoSelector:
    def get_map(self):
        return {}

    def get_key(self, fd):
        raise KeyError(fd)

    def close(self):
        pass


class SimIOLoop(SimLoop):
    def __init__(self, rng, config=None, kernel_cfg=None):
        super().__init__(rng, config)
        cfg = {"short_read": 0.0, "short_write": 0.0, "eagain": 0.0, "delays": [0], "io_first": 0.0}
        cfg.update(kernel_cfg or {})
        self.kern = Kernel(rng, self, cfg, self.stats)
        self._readers = {}
        self._writers = {}
        self._transports = weakref.WeakValueDictionary()
        self._selector = _NoSelector()

    def _key(self, fd):
        if isinstance(fd, int):
            return fd
        return fd._fd

    def _add_reader(self, fd, callback, *args):
        k = self._key(fd)
        old = self._readers.get(k)
        if old is not None:
            old.cancel()
        h = asyncio.Handle(callback, args, self, None)
        self._readers[k] = h
        return h

    def _remove_reader(self, fd):
        h = self._readers.pop(self._key(fd), None)
        if h is not None:
            h.cancel()
            return True
        return False

    def _add_writer(self, fd, callback, *args):
        k = self._key(fd)
        old = self._writers.get(k)
        if old is not None:
            old.cancel()
        h = asyncio.Handle(callback, args, self, None)
        self._writers[k] = h
        return h

    def _remove_writer(self, fd):
        h = self._writers.pop(self._key(fd), None)
        if h is not None:
            h.cancel()
            return True
        return False

    add_reader = _add_reader
    remove_reader = _remove_reader
    add_writer = _add_writer
    remove_writer = _remove_writer

    def _ensure_fd_no_transport(self, fd):
        pass

    def _make_socket_transport(self, sock, protocol, waiter=None, *, extra=None, server=None):
        # what BaseSelectorEventLoop does: lets loop.create_connection(sock=...) / connect_accepted_socket() run
        # unchanged on a SimSocket
        from asyncio import selector_events
        return selector_events._SelectorSocketTransport(self, sock, protocol, waiter, extra, server)

    def _poll(self):
        ready = []
        socks = self.kern.socks
        for fd, h in self._readers.items():
            if socks[fd].readable():
                ready.append(h)
        for fd, h in self._writers.items():
            if socks[fd].writable():
                ready.append(h)
        if len(ready) > 1:
            self.rng.shuffle(ready)
            self.stats["fd_order"] += 1
        if ready and self.kern.cfg["io_first"] and self.rng.random() < self.kern.cfg["io_first"]:
            # EXPERIMENTAL, off in every registered check: running I/O callbacks ahead of already queued
            # call_soon callbacks is not something the selector loop (or uvloop) does, so it is not a legal
            # schedule; kept only for experiments (DESIGN.md 5.2)
            self._ready.extendleft(reversed(ready))
            self.stats["io_before_callbacks"] += 1
        else:
            self._ready.extend(ready)

    def _nothing_to_do(self):
        # nothing ready, no timer: bytes still in flight are the only thing that can happen
        t = self.kern.next_arrival()
        if t is None:
            super()._nothing_to_do()
        self._vnow = max(self._vnow, t)
        self._poll()

    def _run_once(self):
        self._poll()
        if not self._ready and not self._stopping:
            # idle: the next event is either a timer or the arrival of in-flight bytes
            t = self.kern.next_arrival()
            if t is not None and (not self._scheduled or t <= self._scheduled[0]._when):
                self._vnow = max(self._vnow, t)
                self._poll()
        super()._run_once()
