"""Seeded search driver shared by all checks: parallel execution, evidence, known findings,
minimisation and replay (DESIGN.md sections 3 and 7).

A *check* object provides

    prop            'C10'
    engine          'sync'
    rule_text       how cases are generated and what makes one non-trivial/distinct
    components      {'real': [...], 'stub': [...]}
    assumptions     [...]
    budgets         {'quick': (n_runs, wall_cap_s), 'thorough': (n_runs, wall_cap_s)}
    gen_case(seed:int, tier:str) -> dict        JSON-serialisable; contains everything that
                                                decides the execution (program, config, seeds)
    run_case(case:dict) -> dict                 {'violations': [{'rule','sig','detail'}],
                                                 'digest': str, 'faults': {kind: n},
                                                 'nontrivial': bool, 'vtime': float,
                                                 'iters': int, 'probes': {..}, 'steps': int}
    shrinks(case) -> iterator of smaller cases  (optional)
    bounds(tier) -> dict                        (optional; recorded in the evidence)
    extra_evidence(tier) -> dict                (optional)

Exit status: 0 held (known findings are printed as KNOWN-FINDING lines), 1 violation
(`VIOLATION property=<id> replay=<path>`), 2 harness error (never a VIOLATION line).
"""
from __future__ import annotations

import argparse
import concurrent.futures as cf
import faulthandler
import fnmatch
import hashlib
import json
import multiprocessing
import os
import random
import subprocess
import sys
import time
import traceback
from collections import Counter

VERIF = os.path.dirname(os.path.dirname(os.path.abspath(__file__)))
DEFAULT_SEED = 20260922
CHUNK = 64


def uptime():
    try:
        with open("/proc/uptime") as f:
            return float(f.read().split()[0])
    except OSError:
        return time.monotonic()


def derive_seed(base: int, prop: str, index: int) -> int:
    return random.Random(f"{base}:{prop}:{index}").getrandbits(48)


def make_case(chk, base, index, tier):
    seed = derive_seed(base, chk.prop, index)
    if hasattr(chk, "gen_case_indexed"):
        return seed, chk.gen_case_indexed(index, seed, tier)
    return seed, chk.gen_case(seed, tier)


# ------------------------------------------------------------------------------------------
# known findings
# ------------------------------------------------------------------------------------------
def load_known(prop):
    path = os.path.join(VERIF, "known_findings.json")
    try:
        data = json.load(open(path))
    except FileNotFoundError:
        return []
    return [f for f in data.get("findings", []) if prop in f.get("properties", [f.get("property")])
            and f.get("status", "open") == "open"]


def match_known(known, viol):
    for f in known:
        for pat in f.get("signatures", []):
            if fnmatch.fnmatchcase(viol["sig"], pat):
                return f
    return None


# ------------------------------------------------------------------------------------------
# worker side
# ------------------------------------------------------------------------------------------
_CHECK = None


def _worker_init(check_factory, hard_timeout):
    global _CHECK
    faulthandler.enable()
    _CHECK = check_factory()


def _run_chunk(args):
    base, tier, lo, hi, hard_timeout, want_samples = args
    chk = _CHECK
    faulthandler.dump_traceback_later(hard_timeout, exit=True)
    out = {"n": 0, "digests": [], "nt_digests": [], "faults": Counter(), "probes": Counter(),
           "vtime": 0.0, "iters": 0, "steps": 0, "viol": [], "samples": [], "errors": [],
           "viol_runs": 0, "cfg": Counter()}
    try:
        for i in range(lo, hi):
            seed = derive_seed(base, chk.prop, i)
            try:
                seed, case = make_case(chk, base, i, tier)
                res = chk.run_case(case)
            except Exception:
                out["errors"].append({"index": i, "seed": seed, "tb": traceback.format_exc()[-3000:]})
                if len(out["errors"]) > 3:
                    break
                continue
            out["n"] += 1
            d = int(res["digest"][:15], 16)
            out["digests"].append(d)
            if res.get("nontrivial"):
                out["nt_digests"].append(d)
            out["faults"].update(res.get("faults", {}))
            out["probes"].update(res.get("probes", {}))
            out["vtime"] += res.get("vtime", 0.0)
            out["iters"] += res.get("iters", 0)
            out["steps"] += res.get("steps", 0)
            for k in res.get("cfg", ()):
                out["cfg"][k] += 1
            if res["violations"]:
                out["viol_runs"] += 1
                if len(out["viol"]) < 8:
                    out["viol"].append({"index": i, "seed": seed, "case": case,
                                        "violations": res["violations"][:6], "digest": res["digest"]})
            if want_samples and len(out["samples"]) < want_samples and res.get("nontrivial"):
                out["samples"].append({"seed": seed, "case": case, "digest": res["digest"],
                                       "summary": res.get("summary")})
    finally:
        faulthandler.cancel_dump_traceback_later()
    out["faults"] = dict(out["faults"])
    out["probes"] = dict(out["probes"])
    out["cfg"] = dict(out["cfg"])
    return out


def _rerun_digests(args):
    base, tier, indices, hard_timeout = args
    chk = _CHECK
    faulthandler.dump_traceback_later(hard_timeout, exit=True)
    try:
        res = []
        for i in indices:
            seed, case = make_case(chk, base, i, tier)
            r = chk.run_case(case)
            res.append((i, r["digest"]))
        return res
    finally:
        faulthandler.cancel_dump_traceback_later()


# ------------------------------------------------------------------------------------------
# minimisation
# ------------------------------------------------------------------------------------------
def minimise(chk, case, rule, known, budget_runs=4000, budget_s=150.0):
    """Greedy delta debugging: keep a smaller case while a violation with the same rule id that
    is not a known finding still occurs."""
    def fails(c):
        try:
            r = chk.run_case(c)
        except Exception:
            return False
        for v in r["violations"]:
            if v["rule"] == rule and match_known(known, v) is None:
                return True
        return False

    if not hasattr(chk, "shrinks"):
        return case, 0
    t0 = time.monotonic()
    runs = 0
    improved = True
    while improved and runs < budget_runs and time.monotonic() - t0 < budget_s:
        improved = False
        for cand in chk.shrinks(case):
            # a smaller program consumes the schedule PRNG differently, so a race that needs one particular
            # interleaving usually disappears with the original schedule seed: also try a few derived seeds
            # (the accepted candidate carries the seed it failed with, so the replay stays one exact execution)
            for var in _schedule_variants(cand):
                runs += 1
                if fails(var):
                    case = var
                    improved = True
                    break
                if runs >= budget_runs or time.monotonic() - t0 > budget_s:
                    break
            if improved or runs >= budget_runs or time.monotonic() - t0 > budget_s:
                break
    return case, runs


def _schedule_variants(case, k=3):
    yield case
    if isinstance(case.get("sched_seed"), int):
        for i in range(k):
            c = dict(case)
            c["sched_seed"] = random.Random(f"{case['sched_seed']}:{i}").getrandbits(32)
            yield c


# ------------------------------------------------------------------------------------------
# evidence
# ------------------------------------------------------------------------------------------
def repo_state():
    def git(*a):
        try:
            return subprocess.run(["git", "-C", "/repo", *a], capture_output=True, text=True, timeout=20).stdout
        except Exception:
            return ""
    head = git("rev-parse", "HEAD").strip()
    diff = git("diff", "HEAD")
    import anyio
    return {"repo_head": head, "worktree_diff_sha1": hashlib.sha1(diff.encode()).hexdigest()[:12] if diff else None,
            "anyio_file": anyio.__file__}


def write_evidence(chk, tier, seed, cov, wall, nviol, assumptions):
    os.makedirs(os.path.join(VERIF, "evidence"), exist_ok=True)
    ev = {"property_id": chk.prop, "tier": tier, "seed": seed, "level": getattr(chk, "level", "exploration"),
          "coverage": cov, "assumptions": assumptions, "wall_s": round(wall, 2), "violations": nviol}
    path = os.path.join(VERIF, "evidence", f"{chk.prop}.json")
    tmp = path + ".tmp"
    with open(tmp, "w") as f:
        json.dump(ev, f, indent=1, default=str)
    os.replace(tmp, path)
    return path


# ------------------------------------------------------------------------------------------
# main entry
# ------------------------------------------------------------------------------------------
def replay(chk, path):
    data = json.load(open(path))
    case = data["case"]
    res = chk.run_case(case)
    known = load_known(chk.prop)
    print(f"replay {path}: digest={res['digest']} recorded={data.get('digest')}")
    same = data.get("digest") in (None, res["digest"])
    bad = [v for v in res["violations"] if match_known(known, v) is None]
    for v in res["violations"]:
        tag = "known" if match_known(known, v) else "NEW"
        print(f"  [{tag}] {v['rule']} sig={v['sig']} :: {v['detail'][:400]}")
    if not same:
        print("  WARNING: digest differs from the recorded one (tree or harness changed since)")
    if bad:
        print(f"VIOLATION property={chk.prop} replay={path}")
        return 1
    print("no (unknown) violation reproduced")
    return 0


def main(check_factory, argv=None):
    ap = argparse.ArgumentParser()
    ap.add_argument("--tier", default=os.environ.get("VERIF_TIER", "quick"), choices=["quick", "thorough"])
    ap.add_argument("--seed", type=int, default=None)
    ap.add_argument("--replay")
    ap.add_argument("--runs", type=int)
    ap.add_argument("--wall", type=float)
    ap.add_argument("--workers", type=int, default=int(os.environ.get("VERIF_WORKERS", "0")) or os.cpu_count())
    ap.add_argument("--no-evidence", action="store_true")
    ap.add_argument("--one", type=int, help="run a single index verbosely")
    ap.add_argument("--keep-going", action="store_true", help="do not stop at the first violating chunk")
    args = ap.parse_args(argv)
    chk = check_factory()
    if args.replay:
        return replay(chk, args.replay)
    base = args.seed if args.seed is not None else int(os.environ.get("VERIF_SEED", DEFAULT_SEED))
    tier = args.tier
    n_runs, wall_cap = chk.budgets[tier]
    if args.runs:
        n_runs = args.runs
    if args.wall:
        wall_cap = args.wall
    if args.one is not None:
        seed, case = make_case(chk, base, args.one, tier)
        res = chk.run_case(case)
        print(json.dumps(case, indent=None)[:4000])
        print(json.dumps({k: v for k, v in res.items() if k != "history"}, indent=1, default=str)[:6000])
        if getattr(chk, "verbose_history", None):
            chk.verbose_history(res)
        return 1 if res["violations"] else 0

    known = load_known(chk.prop)
    t0 = uptime()
    hard_timeout = getattr(chk, "hard_timeout", 240)
    workers = max(1, args.workers)
    chunk = getattr(chk, "chunk", CHUNK)
    agg = {"n": 0, "faults": Counter(), "probes": Counter(), "vtime": 0.0, "iters": 0, "steps": 0,
           "viol_runs": 0, "cfg": Counter()}
    digests = set()
    nt_digests = set()
    samples = []
    violating = []
    errors = []
    known_seen = Counter()
    ctx = multiprocessing.get_context("fork")
    status = 0
    stopped_early = False
    try:
        with cf.ProcessPoolExecutor(max_workers=workers, mp_context=ctx, initializer=_worker_init,
                                    initargs=(check_factory, hard_timeout)) as pool:
            pending = set()
            next_lo = 0
            def submit():
                nonlocal next_lo
                if next_lo >= n_runs:
                    return False
                hi = min(n_runs, next_lo + chunk)
                pending.add(pool.submit(_run_chunk, (base, tier, next_lo, hi, hard_timeout,
                                                     2 if len(samples) < 4 else 0)))
                next_lo = hi
                return True
            for _ in range(workers * 2):
                submit()
            new_viol = False
            while pending:
                done, _ = cf.wait(pending, timeout=hard_timeout + 30, return_when=cf.FIRST_COMPLETED)
                if not done:
                    raise RuntimeError("worker pool made no progress")
                for fut in done:
                    pending.discard(fut)
                    out = fut.result()
                    agg["n"] += out["n"]
                    agg["faults"].update(out["faults"])
                    agg["probes"].update(out["probes"])
                    agg["cfg"].update(out["cfg"])
                    agg["vtime"] += out["vtime"]
                    agg["iters"] += out["iters"]
                    agg["steps"] += out["steps"]
                    agg["viol_runs"] += out["viol_runs"]
                    digests.update(out["digests"])
                    nt_digests.update(out["nt_digests"])
                    if len(samples) < 4:
                        samples.extend(out["samples"][: 4 - len(samples)])
                    errors.extend(out["errors"])
                    for vr in out["viol"]:
                        for v in vr["violations"]:
                            f = match_known(known, v)
                            if f is not None:
                                known_seen[f["id"]] += 1
                            else:
                                new_viol = True
                        violating.append(vr)
                over = uptime() - t0 > wall_cap
                if errors or (new_viol and not args.keep_going) or over:
                    stopped_early = over
                    for p in list(pending):
                        if p.cancel():
                            pending.discard(p)
                    next_lo = n_runs
                else:
                    while len(pending) < workers * 2 and submit():
                        pass
            # determinism spot check: re-run a sample of indices in other processes
            recheck = []
            if not errors and agg["n"] and getattr(chk, "recheck", 48):
                k = min(getattr(chk, "recheck", 48), agg["n"])
                idx = sorted(random.Random(base).sample(range(min(agg["n"], n_runs)), k))
                first = dict(pool.submit(_rerun_digests, (base, tier, idx, hard_timeout)).result(timeout=hard_timeout + 30))
                second = dict(pool.submit(_rerun_digests, (base, tier, idx[::-1], hard_timeout)).result(timeout=hard_timeout + 30))
                recheck = [i for i in idx if first[i] != second[i]]
                agg["recheck_n"] = k
    except Exception as e:
        print(f"HARNESS-ERROR {chk.prop}: {type(e).__name__}: {e}", file=sys.stderr)
        traceback.print_exc()
        return 2
    if errors:
        print(f"HARNESS-ERROR {chk.prop}: exception inside the harness for seed {errors[0]['seed']}\n{errors[0]['tb']}",
              file=sys.stderr)
        return 2
    if recheck:
        print(f"HARNESS-ERROR {chk.prop}: nondeterministic digests for indices {recheck[:5]}", file=sys.stderr)
        return 2

    # classify violations
    new = []
    for vr in violating:
        for v in vr["violations"]:
            if match_known(known, v) is None:
                new.append((vr, v))
    replay_path = None
    if new:
        print("new violation rules:", dict(Counter(v["sig"] for _, v in new)))
    for f in known:
        if known_seen.get(f["id"]):
            print(f"KNOWN-FINDING: property={chk.prop} {f['id']} {f['what']} (seen in {known_seen[f['id']]} runs)")
    if new:
        new.sort(key=lambda t: len(json.dumps(t[0]["case"])))
        vr, v = new[0]
        case, shr = minimise(chk, vr["case"], v["rule"], known,
                             budget_runs=getattr(chk, "shrink_runs", 600), budget_s=getattr(chk, "shrink_s", 60))
        res = chk.run_case(case)
        vv = [x for x in res["violations"] if x["rule"] == v["rule"] and match_known(known, x) is None] or [v]
        os.makedirs(os.path.join(VERIF, "replays"), exist_ok=True)
        replay_path = os.path.join(VERIF, "replays", f"{chk.prop}-{vr['seed']}.json")
        with open(replay_path, "w") as f:
            json.dump({"property": chk.prop, "rule": vv[0]["rule"], "sig": vv[0]["sig"], "detail": vv[0]["detail"],
                       "seed": vr["seed"], "base_seed": base, "index": vr["index"], "tier": tier,
                       "shrink_runs": shr, "digest": res["digest"], "case": case,
                       "decisions": res.get("decisions"), "history": res.get("history_text"),
                       "original_case": vr["case"]}, f, indent=1, default=str)
        print(f"violated rule {vv[0]['rule']}: {vv[0]['detail'][:1500]}")
        print(f"VIOLATION property={chk.prop} replay={replay_path}")
        status = 1
    wall = uptime() - t0
    cov = {
        "evaluations": agg["n"],
        "distinct_nontrivial": len(nt_digests),
        "distinct_histories": len(digests),
        "rule": chk.rule_text,
        "samples": samples[:3],
        "exhaustive": False,
        "runs_per_hour": int(agg["n"] / max(wall, 1e-6) * 3600),
        "simulated_seconds": round(agg["vtime"], 3),
        "loop_iterations": agg["iters"],
        "history_records": agg["steps"],
        "faults_fired": dict(sorted(agg["faults"].items())),
        "faults_unreached": sorted(k for k in getattr(chk, "fault_kinds", ()) if not agg["faults"].get(k)),
        "probes": dict(sorted(agg["probes"].items())),
        "configurations": dict(sorted(agg["cfg"].items())),
        "bounds": chk.bounds(tier) if hasattr(chk, "bounds") else {},
        "components": chk.components,
        "planned_runs": n_runs,
        "stopped_by_wall_cap": stopped_early,
        "determinism_rechecks": agg.get("recheck_n", 0),
        "violating_runs": agg["viol_runs"],
        "known_findings_seen": dict(known_seen),
        "workers": workers,
        "new_violation_replay": replay_path,
        **repo_state(),
    }
    if hasattr(chk, "extra_evidence"):
        cov.update(chk.extra_evidence(tier))
    if not args.no_evidence:
        write_evidence(chk, tier, base, cov, wall, len(new), list(chk.assumptions))
    print(f"{chk.prop} {tier}: {agg['n']} runs, {len(nt_digests)} distinct non-trivial, "
          f"{agg['vtime']:.0f} simulated s, {wall:.1f}s wall, faults={dict(agg['faults'])}, "
          f"known={dict(known_seen)}, new_violations={len(new)}")
    return status
