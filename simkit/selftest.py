"""Self-tests of the machinery: setup (imports, schema), determinism, loop equivalence, mutants."""
from __future__ import annotations

import json
import os
import subprocess
import sys

VERIF = os.path.dirname(os.path.dirname(os.path.abspath(__file__)))


def setup(argv):
    import anyio
    from simkit import harness  # noqa: F401  (asserts anyio comes from /repo/src)
    man = json.load(open(os.path.join(VERIF, "MANIFEST.json")))
    try:
        import jsonschema
        jsonschema.validate(man, json.load(open("/root/.vp/MANIFEST.schema.json")))
    except ImportError:
        pass
    except FileNotFoundError:
        pass
    from simkit.cli import factory
    for c in man["checks"]:
        chk = factory(c["property_id"])
        from simkit.runner import make_case
        _, case = make_case(chk, 1, 0, "quick")
        r1 = chk.run_case(case)
        r2 = chk.run_case(json.loads(json.dumps(case)))
        if r1["digest"] != r2["digest"]:
            print(f"setup: nondeterministic {c['property_id']}", file=sys.stderr)
            return 2
    os.makedirs(os.path.join(VERIF, "evidence"), exist_ok=True)
    os.makedirs(os.path.join(VERIF, "replays"), exist_ok=True)
    print(f"setup ok: anyio from {anyio.__file__}; {len(man['checks'])} checks")
    return 0


def determinism(argv):
    """Run N seeds of every (or the given) check twice in-process and once more in a fresh
    interpreter under another PYTHONHASHSEED; digests must agree."""
    import argparse
    ap = argparse.ArgumentParser()
    ap.add_argument("props", nargs="*")
    ap.add_argument("-n", type=int, default=300)
    ap.add_argument("--child", action="store_true")
    a = ap.parse_args(argv)
    from simkit.cli import factory
    from simkit.runner import derive_seed, make_case
    man = json.load(open(os.path.join(VERIF, "MANIFEST.json")))
    props = a.props or [c["property_id"] for c in man["checks"]]
    out = {}
    for p in props:
        chk = factory(p)
        ds = []
        for i in range(a.n):
            _, case = make_case(chk, 777, i, "quick")
            d1 = chk.run_case(case)["digest"]
            if not a.child:
                d2 = chk.run_case(json.loads(json.dumps(case)))["digest"]
                if d1 != d2:
                    print(f"NONDETERMINISTIC in-process: {p} index {i}")
                    return 2
            ds.append(d1)
        out[p] = ds
    if a.child:
        print("DIGESTS " + json.dumps(out))
        return 0
    for hs in ("1", "12345"):
        env = dict(os.environ, PYTHONHASHSEED=hs)
        r = subprocess.run([sys.executable, "-m", "simkit.cli", "selftest-determinism", "--child", "-n", str(a.n), *props],
                           capture_output=True, text=True, env=env, cwd=VERIF, timeout=3600)
        line = [l for l in r.stdout.splitlines() if l.startswith("DIGESTS ")]
        if not line:
            print("child failed", r.stdout[-2000:], r.stderr[-2000:])
            return 2
        other = json.loads(line[0][8:])
        for p in props:
            bad = [i for i, (x, y) in enumerate(zip(out[p], other[p])) if x != y]
            if bad:
                print(f"NONDETERMINISTIC across interpreters (PYTHONHASHSEED={hs}): {p} indices {bad[:10]}")
                return 2
    print(f"determinism ok: {props} x {a.n} seeds x (2 in-process + 2 fresh interpreters)")
    return 0


def main(name, argv):
    if name == "selftest-setup":
        return setup(argv)
    if name == "selftest-determinism":
        return determinism(argv)
    if name == "selftest-mutants":
        from simkit import mutants
        return mutants.main(argv)
    if name == "selftest-loop":
        from simkit import looptest
        return looptest.main(argv)
    raise SystemExit(f"unknown selftest {name}")
