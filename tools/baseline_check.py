#!/venv/bin/python
"""Run the pinned baseline suite against an anyio source tree and compare with BASELINE.json.

usage: baseline_check.py <tree-root> [pytest-args...]
The tree root must contain src/ and tests/.  Exit 0 iff every stable_pass test passed.
"""
import json, os, subprocess, sys, tempfile, xml.etree.ElementTree as ET

def main():
    root = os.path.abspath(sys.argv[1])
    extra = sys.argv[2:]
    base = json.load(open('/root/.vp/BASELINE.json'))
    stable = set(base['stable_pass'])
    fd, junit = tempfile.mkstemp(suffix='.xml'); os.close(fd)
    env = dict(os.environ, PYTHONPATH=os.path.join(root, 'src'))
    cmd = ['/venv/bin/python', '-m', 'pytest', '-q', '-p', 'no:cacheprovider', '--timeout=900',
           '--continue-on-collection-errors', '--junitxml=' + junit] + extra
    p = subprocess.run(cmd, cwd=root, env=env, stdout=subprocess.PIPE, stderr=subprocess.STDOUT, text=True)
    tail = p.stdout.strip().splitlines()[-3:]
    passed = set()
    try:
        for tc in ET.parse(junit).getroot().iter('testcase'):
            name = tc.get('classname') + '::' + tc.get('name')
            bad = any(c.tag in ('failure', 'error', 'skipped') for c in tc)
            if not bad:
                passed.add(name)
    finally:
        os.unlink(junit)
    missing = sorted(stable - passed)
    print('\n'.join(tail))
    print(f'stable_pass={len(stable)} passed_of_stable={len(stable & passed)} missing={len(missing)}')
    for m in missing[:40]:
        print('  NOT PASSED:', m)
    sys.exit(0 if not missing and not extra else (0 if not missing else 1))

main()
