#!/bin/sh
# usage: try_patch.sh <patch.diff> <prop> [check args...]
# Applies the patch to a scratch copy of /repo/src (outside /repo and /verif), runs ./check <prop> against it
# with VERIF_ANYIO_SRC, removes the copy.  Exit status is the check's.
P="$1"; PROP="$2"; shift 2
D=$(mktemp -d /tmp/mut.XXXXXX)
cp -r /repo/src "$D/src"
( cd "$D" && patch -p1 -s -F 3 < "$P" ) || { echo "PATCH DID NOT APPLY"; rm -rf "$D"; exit 3; }
VERIF_ANYIO_SRC="$D/src" timeout 900 /verif/check "$PROP" --no-evidence "$@"
RC=$?
rm -rf "$D"
exit $RC
