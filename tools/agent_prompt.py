#!/usr/bin/env python3
"""Print the prompt given to an independent sub-agent for property <id> (only the property text +
its own scratch worktree; nothing from /verif)."""
import json, sys
pid = sys.argv[1]
for l in open('/verif/properties.jsonl'):
    p = json.loads(l)
    if p['id'] == pid: break
else: raise SystemExit('no such property')
outroot = sys.argv[2] if len(sys.argv) > 2 else 'out'
diversity = ("Earlier reviewers have already tried the most obvious slips in the central code path (swapped conditions in the hot loop, a `while` turned into an `if`, a dropped re-check, a moved assignment). Prefer LESS obvious places this time: alternate constructors / entry points / wrapper classes that reach the same functionality, rarely used parameters and their defaults, unusual but legal argument values and sizes, error and clean-up paths, behaviour on the second call after an error or after the end, the interplay with native asyncio features (plain asyncio tasks, Task.cancel(), asyncio.timeout, futures), state that survives from one use of an object to the next."
             if len(sys.argv) > 3 and sys.argv[3] == 'diverse' else "")
wt = f'/tmp/wt/{pid}'; out = f'/tmp/wt/{outroot}/{pid}'
print(f"""You are helping to evaluate a verification tool for the Python library AnyIO (agronholm/anyio, asyncio backend; trio is NOT installed here). Your job is to play the role of a developer who introduces a subtle regression.

You have your own scratch git worktree of the library at {wt} (source in {wt}/src/anyio, tests in {wt}/tests). Work ONLY inside {wt} and {out}. Never read, modify or run anything under /repo or /verif (they are off limits), and do not touch other directories under /tmp/wt. The machine has no network.

THE PROPERTY (a semantic guarantee users of anyio rely on):

  Title: {p['title']}
  Statement: {p['statement']}
  Holds for: {p['quantifier']['text']}
  Code it is anchored in: {', '.join(p['anchors']['files'])}

YOUR TASK: produce TWO different, independent changes (mutations) to the library source under {wt}/src/anyio, each of which
  1. BREAKS the property above (in a way a user could actually observe through the public API), and
  2. still imports/compiles, and still passes the existing test suite (every test that passes without your change must still pass with it), and
  3. is REALISTIC: it should look like a plausible refactoring slip, optimisation, off-by-one, forgotten case or mis-ordered statement - not sabotage, not a `if magic_value:` special case, no new env vars, no randomness, and
  4. is SUBTLE: it must need something specific to manifest - a particular interleaving of tasks/threads, a cancellation or fault arriving at a particular point, a multi-step sequence of operations, an unusual input or configuration, or two cooperating sites that each look fine alone. A change that ordinary straightforward use of the API would expose at once is NOT what we want (the existing tests would usually catch those anyway).
The two changes should use different mechanisms / touch different logic, so that they are not variants of each other.
{diversity} Keep each change small (typically 1-15 changed lines).

For EACH of the two changes deliver, in {out}/A/ and {out}/B/ respectively:
  - patch.diff : a unified diff produced with `git -C {wt} diff` (must apply cleanly with `git apply` to the pristine worktree HEAD; paths relative to the repo root, e.g. src/anyio/...).
  - demo.py : a small stand-alone program using only the public anyio API (run as `PYTHONPATH=<tree>/src /venv/bin/python demo.py`), which exits 0 and prints "OK" when the property holds (pristine tree) and exits 1 printing "BROKEN: <what was observed>" with your change applied. It must be deterministic (no flaky timing; prefer anyio Events / explicit ordering over sleeps where possible; short sleeps are acceptable when needed). It should finish in a few seconds and must not hang forever (guard with a timeout, e.g. anyio.fail_after or a watchdog).
  - meta.json : {{"property": "{pid}", "summary": "<one sentence: what the change does>", "needs": "<what specific interleaving / fault / sequence / input is needed for it to manifest>", "files": ["src/anyio/..."], "why_tests_pass": "<why the existing suite does not notice>"}}

HOW TO RUN THINGS
  - Python interpreter: /venv/bin/python (3.12). anyio is installed there in editable mode pointing at another tree, so ALWAYS set PYTHONPATH={wt}/src to use your worktree's code, and verify with `PYTHONPATH={wt}/src /venv/bin/python -c "import anyio; print(anyio.__file__)"`.
  - Full existing test suite against your worktree (takes roughly 4-7 minutes; some network-dependent tests fail even on the pristine tree - that is expected; the helper compares against the recorded list of 2917 tests that pass on the pristine tree):
        /tmp/wt/tools/baseline_check.py {wt}
    It prints `missing=0` and exits 0 when every test of the pristine-pass list still passes. Do NOT use pytest-xdist (-n): it produces spurious failures here. You can first run a relevant subset quickly, e.g. `cd {wt} && PYTHONPATH={wt}/src /venv/bin/python -m pytest -q -p no:cacheprovider tests/test_taskgroups.py -x -q`, but the final verdict for each change must come from the full helper run with only that change applied.
  - The helper is sensitive to machine load: if it reports a handful of missing tests (typically tests/test_sockets.py TestTCPStream ...ipv4, test_keyboard_interrupt_does_not_resume_test or a thread-pool test) that have nothing to do with your change, re-run exactly those tests alone (`cd {wt} && PYTHONPATH={wt}/src /venv/bin/python -m pytest -q -p no:cacheprovider <test ids>`); if they pass alone, count them as passing.
  - Never use `git stash` (the stash is shared between all worktrees of this repository); use `git diff > file`, `git checkout -- .` and `git apply file` instead.
  - Do not edit anything under {wt}/tests.
  - Work on one change at a time: apply, test, save `git -C {wt} diff > {out}/A/patch.diff`, then `git -C {wt} checkout -- .` to return to pristine before starting the next one. Leave the worktree pristine (`git -C {wt} status --short` empty) when you finish.

VERIFY before you report, for each change: (a) demo.py prints OK / exit 0 on the pristine worktree; (b) with patch applied demo.py prints BROKEN / exit 1; (c) with the patch applied the full suite helper reports missing=0. If a candidate change makes some existing test fail, discard or refine it - that is expected to happen often; try another idea. If after serious effort you can only find one valid change, deliver one and say so.

Your final message should state, for A and B: the one-sentence summary, what it needs to manifest, and the exact outcomes of checks (a), (b), (c).""")
