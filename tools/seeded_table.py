#!/usr/bin/env python3
"""Regenerate the table of seeded changes in DESIGN.md (between the SEEDED-TABLE markers) from seeded/*/meta.json."""
import glob
import json
import os
import re

V = os.path.dirname(os.path.dirname(os.path.abspath(__file__)))
rows = ["| change | what it breaks (agent's summary, shortened) | demo: tree / patched | suite with patch | caught by (quick tier; first violated rule) |",
        "|---|---|---|---|---|"]
n = ok = 0
for p in sorted(glob.glob(os.path.join(V, "seeded", "*", "meta.json"))):
    m = json.load(open(p))
    n += 1
    summ = re.sub(r"\s+", " ", m.get("summary") or "").replace("|", "/")
    if len(summ) > 170:
        summ = summ[:167] + "..."
    demo = f"{m['demo_on_current_tree']['exit']} / {m['demo_with_patch']['exit']}"
    sw = m.get("suite_with_patch") or {}
    suite = "not run" if not sw else ("2917/2917" + (" (load-sensitive tests re-run alone)" if sw.get("retried") else "") if sw.get("passes_all_2917_stable_tests") else "FAILS")
    det = []
    for chk in m.get("detected_by") or []:
        v = (m["checks"][chk].get("violated") or "").replace("violated rule ", "")
        rule = v.split(":")[0] if v else "?"
        det.append(f"{chk} `{rule}` ({m['checks'][chk]['seconds']} s)")
    if m.get("demo_confirmed") and det:
        ok += 1
    rows.append(f"| {m['id']} | {summ} | {demo} | {suite} | {'; '.join(det) or '**none**'} |")
rows.append("")
rows.append(f"{ok} of {n} changes: demonstration confirmed (exit 0 on the tree, 1 with the patch) and caught by at least one registered quick check.")
table = "\n".join(rows)
path = os.path.join(V, "DESIGN.md")
s = open(path).read()
if "<!-- SEEDED-TABLE-BEGIN -->" in s:
    s = re.sub(r"<!-- SEEDED-TABLE-BEGIN -->.*?<!-- SEEDED-TABLE-END -->", lambda _: "<!-- SEEDED-TABLE-BEGIN -->\n" + table + "\n<!-- SEEDED-TABLE-END -->", s, flags=re.S)
else:
    s = s.replace("\nSEEDED-TABLE\n", "\n<!-- SEEDED-TABLE-BEGIN -->\n" + table + "\n<!-- SEEDED-TABLE-END -->\n")
open(path, "w").write(s)
print(f"{ok}/{n}")
