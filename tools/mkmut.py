"""helper: mk(name, file, old, new, props, note) writes /verif/mutants/<name>.patch (diff -ru a/src b/src against /repo/src)"""
import subprocess, tempfile, shutil
def mk(name, file, old, new, props, note):
    d = tempfile.mkdtemp(prefix='/tmp/mk.')
    shutil.copytree('/repo/src', d + '/a/src'); shutil.copytree('/repo/src', d + '/b/src')
    p = d + '/b/src/anyio/' + file
    s = open(p).read(); assert old in s, (name, 'pattern not found'); s = s.replace(old, new, 1); open(p, 'w').write(s)
    out = subprocess.run(['diff', '-ru', 'a/src', 'b/src'], cwd=d, capture_output=True, text=True).stdout
    open(f'/verif/mutants/{name}.patch', 'w').write(f'# props: {" ".join(props)}\n# {note}\n' + out)
    shutil.rmtree(d)
