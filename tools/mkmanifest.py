#!/usr/bin/env python3
"""Regenerate /verif/MANIFEST.json from the table below (kept in one place so that the manifest
is always schema-valid and in step with the checks that exist)."""
import json
import os
import subprocess

VERIF = os.path.dirname(os.path.dirname(os.path.abspath(__file__)))

ALL = ["C%02d" % i for i in range(1, 21)]

TRUST = ("asyncio backend only (trio is not installed; uvloop is a C loop without a seam and is not simulated); "
         "SimLoop re-implements BaseEventLoop._run_once with the stock batch semantics (self-tested against the "
         "stock selector loop) and never reorders the FIFO ready queue; the reference models/oracles in /verif are "
         "trusted; a clean batch is sampling evidence, not proof")

CHECKS = {
    "C09": dict(engine="sync-permits", ref="4 (Engine SYNC, C09)",
                technique="deterministic simulation: seeded virtual-time asyncio loop + seeded cancel/hand-off "
                          "fault injection, checked online against a FIFO grant-time lock automaton (world set)",
                text="Seeded search over lock programs (2-8 contending tasks, acquire/acquire_nowait/release, "
                     "fast_acquire on/off, stock/eager task factory) with cancellations injected by siblings and by "
                     "external loop callbacks at seeded cycles and ready-queue positions, biased to the hand-off "
                     "cycle. Every observation (acquire outcome, locked(), statistics()) must be explained by at "
                     "least one state of an independent FIFO grant-time automaton; mutual exclusion, owner-only "
                     "release, no re-acquire, statistics().owner and the unlocked end state are checked directly. "
                     "30% of the cases also cancel whole tasks natively (asyncio Task.cancel()), which reaches a waiter "
                     "that has already been handed the lock. Exploration level: "
                     "sampling of programs x schedules, replayable and minimised on failure."),
    "C10": dict(engine="sync-permits", ref="4 (Engine SYNC, C10)",
                technique="deterministic simulation: seeded virtual-time asyncio loop + seeded cancel/resize fault "
                          "injection, checked online against a FIFO permit-conservation automaton (world set)",
                text="Seeded search over Semaphore / CapacityLimiter programs (initial values 0-3, max_value, "
                     "totals 0,1,2,3,inf; acquire, acquire_nowait, on-behalf-of variants, extra releases, "
                     "total_tokens assignments raising / lowering below the number borrowed / raising again) with "
                     "cancellation of waiters at seeded cycles (30% of the cases also by native Task.cancel() of whole "
                     "tasks, also after a grant and inside the checkpoint of an uncontended acquire). value / borrowed_tokens / available_tokens / "
                     "statistics() are compared with the automaton at every history record; a grant that no "
                     "automaton state explains is an over-grant or an overtaking; end state must be the initial "
                     "one. Exploration level."),
}

SC_NOTE = None
_sc = dict(engine="sc", technique="deterministic simulation: seeded task-tree programs on a seeded virtual-time asyncio "
           "loop with injected cancellations / deadlines / shield toggles / failures, judged by an independent "
           "reference model of cancel-scope semantics over the recorded history")
CHECKS.update({
    "C01": dict(_sc, ref="4 (Engine SC, C01)",
                text="Seeded search over task trees (nested groups, children spawning children - also into foreign, "
                     "cancelled or exiting groups -, start() children, shielded/raising cleanups) under seeded "
                     "schedules and cancel injections. At every group exit: every member task is done, every visible "
                     "TaskHandle is final and its status/return_value/exception equal the interpreter's own record of "
                     "how that coroutine ended (return values include None and exception instances, raised exceptions include "
                     "falsy ones and BaseExceptions); over the history no member executes a step after its group's exit "
                     "record. C01 programs also cancel whole tasks natively (Task.cancel() without / with string / with "
                     "non-string message, repeated, and directed at a group's host while the group is being left, with a "
                     "child lingering behind a shield); an exception raised inside the library that no statement raises "
                     "is a violation (C01.error), a program that never ends too. Exploration level."),
    "C02": dict(_sc, ref="4 (Engine SC, C02)",
                text="Same engine biased to failing children/bodies/cleanups. Per group: identity set of "
                     "non-cancellation leaves raised by the block == exceptions that escaped the body and the members "
                     "(start() hand-overs attributed to the caller), no duplicates, no cancellation leaves, nothing "
                     "raised if nothing failed unless an enclosing scope is cancelled, group scope cancelled on first "
                     "failure; global conservation: every program exception that escaped a task reaches the root "
                     "exactly once. Exploration level."),
    "C03": dict(_sc, ref="4 (Engine SC, C03)",
                text="Same engine biased to cancels at every relative time (self, sibling, outside callback, deadline, "
                     "pre-cancel, under/after shields, spawn into cancelled groups). For every blocking operation the "
                     "model computes the loop cycles during which the task is blocked while its scope chain is "
                     "effectively cancelled: must be <= 4 (calibrated max 2); operations entered in an effectively "
                     "cancelled chain must raise; deadlock / iteration-cap exhaustion is a violation (programs are "
                     "terminating by construction). Scopes also come from move_on_after/move_on_at/fail_after(None)/"
                     "fail_at(inf) and from deadlines assigned before entry. 1% of the cases are to_thread workloads "
                     "(engine THREADS) judged by one rule: a caller cancelled while it waits for a limiter token is "
                     "interrupted. Exploration level."),
    "C04": dict(_sc, ref="4 (Engine SC, C04)",
                text="Same engine biased to scope trees with shields, toggles and deadline moves. Rules: an operation "
                     "is interrupted only if its chain was effectively cancelled at some instant of the operation; at "
                     "every scope exit reached by a cancellation: absorbed iff own scope cancelled and no cancelled "
                     "enclosing scope visible; cancelled_caught iff absorbed; other exceptions (and non-cancellation "
                     "leaves of groups, including a program's own bare CancelledError inside a group) pass through by "
                     "identity; the shield flag must hold whichever public constructor made the scope. Exploration level."),
    "C05": dict(_sc, ref="4 (Engine SC, C05)",
                text="Same engine biased to many deliveries before exit and native asyncio.timeout blocks around/inside "
                     "anyio scopes. Rules: Task.cancelling() (net of pending native timeouts) restored at every scope "
                     "exit whose enclosing chain was never effectively cancelled during the block; asyncio.timeout "
                     "raises TimeoutError iff it expired; after the program no cancel-scope timer is armed and no "
                     "delivery callback keeps rescheduling (iteration cap). Exploration level."),
    "C07": dict(_sc, ref="4 (Engine SC, C07)",
                text="Same engine biased to start(): children with started() anywhere/nowhere/twice, raising before or "
                     "after, callers in the group, in siblings, in foreign groups, under shields, cancelled at every "
                     "relative time. Rules: returned value == first accepted started() value; if start() raises, the "
                     "child task is done, the exception is the child's own (identity) or RuntimeError only if it "
                     "merely returned; errors raised while the caller is being cancelled surface (conservation); a "
                     "child ending before started() does not cancel the group; second started() refused unless the "
                     "caller was cancelled; a start() child is cancelled like any other member of a cancelled group "
                     "(member_not_cancelled). Exploration level."),
})

CHECKS["C11"] = dict(engine="sync-conditions", ref="4 (Engine SYNC, C11)",
    technique="deterministic simulation: seeded virtual-time asyncio loop + seeded cancel/notify fault injection, "
              "checked online against a notification-token automaton (world set) and Event release rules",
    text="Seeded search over Condition/Event programs (1-7 waiters, 1-3 notifiers, notify(n)/notify_all, waits in "
         "cancellable scopes, cancels before / in the same cycle as / after the selecting notification, misuse by "
         "non-holders and earlier holders). A normal return from wait() must be explained by a token in some automaton "
         "state, statistics().tasks_waiting must match (lost / duplicated notifications, phantom waiters), wait() must "
         "come back holding the lock even when cancelled (the section is entered by async with, acquire() or "
         "acquire_nowait(); primitives are also created before the event loop exists); Event.wait returns only after set(), within 3 cycles, and "
         "the event stays set. 30% of the cases also cancel whole waiter tasks natively (Task.cancel()), except while "
         "wait() may be in its shielded lock re-acquisition. Exploration level.")

CHECKS["C08"] = dict(engine="sync-checkpoints", ref="4 (Engine SYNC, C08)", level="exploration",
    technique="deterministic simulation used as observation instrument: complete enumeration of the operation x "
              "state x scope-configuration x loop-configuration table on the simulated loop, state-reaching "
              "histories and bystander load seeded",
    text="Every cell of the finite checkpoint table (50+ operations incl. every anyio.itertools function, 1-3 "
         "immediately-completable states each, 10 scope configurations, stock/eager) is executed on the simulated loop: "
         "in an effectively cancelled scope (cancelled, cancelled outer, shielded-and-cancelled, past deadline, "
         "cancelled group, cancelled before entry) the call must raise the cancellation exception and leave the object "
         "unchanged - also transiently: its state is sampled after every loop cycle while the call is in progress; otherwise (incl. inside a shield within a cancelled scope) it must complete and a callback queued "
         "just before the call must have run before it returns. The table is covered completely on every run "
         "(exhaustive: true); repetitions vary the bystander load.")

_mem = dict(engine="mem", technique="deterministic simulation: seeded sender/receiver programs on a seeded virtual-time "
            "asyncio loop with cancellations and closes injected at seeded cycles; conservation / order / FIFO / "
            "truthfulness oracles over the recorded history and at every record")
CHECKS["C12"] = dict(_mem, ref="4 (Engine MEM, C12)",
    text="Seeded search over memory-object-stream programs (buffer 0/1/2/3/inf, 1-4 sender and receiver clones, blocking and "
         "*_nowait calls, async for, unique items) with cancellation of blocked sends/receives at every relative cycle. "
         "Oracles: every accepted item is received exactly once or still buffered; nothing invented or duplicated; an item "
         "whose send was cancelled is delivered at most once; per-sender order at every receiver; blocked parties served in "
         "waiting order (judged at grant time); buffer never above max_buffer_size; no item stranded while live receivers "
         "wait (also receivers behind a shield inside a cancelled scope). 30% of the cases also cancel whole tasks "
         "natively: senders at any time, receivers while provably still queued; the native cancellation of a receiver after "
         "the hand-over is the directed fault of known finding F17. Exploration level.")
CHECKS["C13"] = dict(_mem, ref="4 (Engine MEM, C13)",
    text="Same engine biased to clone()/close() histories. Oracles against the model's clone sets: EndOfStream only when all "
         "send clones are closed and nothing is buffered or pending; BrokenResourceError only when all receive clones are "
         "closed; ClosedResourceError exactly for operations on a handle closed before the call; closing the last clone of a "
         "side wakes every blocked task of the other side within 3 loop cycles (no deadlock); statistics().open_* equal the "
         "model at every record; closing twice is a no-op. Exploration level.")

CHECKS["C06"] = dict(engine="sc-deadlines", ref="4 (Engine SC, C06)",
    technique="deterministic simulation: seeded deadline-scope programs on a virtual clock compared event by event with an "
              "independent discrete-event reference interpreter (exact sub-mode) / with late wake-ups injected (late sub-mode)",
    text="Seeded search over nests of deadline scopes (CancelScope(deadline), move_on_after/at, fail_after/at, shields, past "
         "deadlines), dyadic sleeps, deadline reassignments and current_effective_deadline() probes in 1-4 tasks. A ~100-line "
         "reference interpreter predicts the virtual time of every interruption, the absorbing scope, every cancelled_caught, "
         "every TimeoutError and every probe value; the observed history must be equal (exact mode: equal times, no "
         "tolerance; late mode: never early, decisions by nominal deadline order). Ties (sleep ending exactly at a deadline) "
         "follow the observed outcome, nothing else does. Exploration level.")

CHECKS["C19"] = dict(engine="func-itertools", ref="4 (Engine FUNC, C19)",
    technique="differential enumeration against CPython's itertools/functools executed on the simulated loop (input "
              "domain; simulation is only the vehicle) + deterministic simulation of tee() consumer interleavings",
    text="Part (i): the table {all sequences over {0,1,2} up to length 4 (quick) / 6 (thorough)} x {list, iterator, async "
         "generator, async iterable} x ~250 sub-cases (all 20 anyio.itertools functions and functools.reduce, integer "
         "parameters -1..3/None incl. invalid ones, all islice(start,stop,step) combinations) is enumerated completely on "
         "every run and compared with the standard library by result list / exception class. Part (ii): seeded tee() runs "
         "with 0-3 consumers, tees of tees, seeded pacing, stalls: every consumer sees the whole sequence, the source's "
         "__anext__ is entered once per element (+1) and never concurrently. Exploration level for (ii); (i) is an "
         "enumeration of a bounded input space.")
CHECKS["C20"] = dict(engine="func-lru", ref="4 (Engine FUNC, C20)",
    technique="deterministic simulation: seeded concurrent callers / failures / cancellations / eviction pressure on a "
              "virtual-time loop with single-flight, value-provenance, retention and ttl oracles; sequential histories "
              "compared call by call with functools.lru_cache on a synchronous twin",
    text="Sequential histories (30%): results (which embed the execution counter, so every hit/miss decision) and the "
         "number of retained results must equal functools.lru_cache on a twin. Concurrent runs (70%): up to 5 callers over "
         "4 keys, wrapped function suspends/fails per a seeded script, callers cancelled by timers, maxsize None/0/1/2/3, "
         "typed, ttl, always_checkpoint: every value returned was produced by an execution for that key, at most one "
         "execution per key in flight, callers see only the value / the function's own exception / their own cancellation, "
         "retained results <= maxsize (behavioural probe), served values younger than ttl. Exploration level.")

CHECKS["C16"] = dict(engine="bytes-wrappers", ref="4 (Engine BYTES, C16)",
    technique="deterministic simulation of the delivery schedule: enumerated small inputs x seeded chunkings / delays / EOF / "
              "feed_data / mid-call cancellations over an in-memory Wire, byte-queue reference model with a conservation "
              "oracle; text wrappers over all split points and send->receive round trips",
    text="Every byte string over {a,b,|} up to length 6 is enumerated; per input, seeded wire kinds (byte stream honouring "
         "max_bytes / object stream of bytes), fragment sizes, delays, call sequences (receive, receive_exactly, "
         "receive_until with 4 delimiters and all small max_bytes, feed_data) and deadlines that cancel a call mid-way (then "
         "retried). Oracle: handed-out bytes + consumed delimiters are a prefix of the input and handed out + buffer + wire is "
         "always the whole input; size rules; IncompleteRead only at EOF; DelimiterNotFound only if absent from the first "
         "max_bytes bytes; failed or cancelled calls consume nothing. Text: 6 encodings incl. BOM-carrying ones, every 2-way "
         "split and random splits, receive == decoding of the whole, TextSendStream -> TextReceiveStream is the identity. "
         "Inputs enumerated, schedules sampled: exploration level.")

CHECKS["C17"] = dict(engine="bytes-tls", ref="4 (Engine BYTES, C17)",
    technique="deterministic simulation with fault injection: real ssl/TLSStream endpoints over a simulated transport whose "
              "fragmentation, coalescing, delays, truncation offset and bit flips are seeded; per-direction byte-stream and "
              "end-of-stream classification oracles",
    text="Real CPython ssl (TLS 1.2 and 1.3) and real TLSStream on both ends of an in-memory Wire pair. Seeded message-size "
         "sequences (0 bytes to 70 000 / 140 000 bytes, i.e. more than 64 KiB of ciphertext in one flush), receive sizes from 1 byte, "
         "simplex and full-duplex workloads, writers that close at once or stay idle until the peer has read everything, per-direction "
         "re-chunking from 1-byte fragments to full coalescing, streams created by TLSStream.wrap(), TLSConnectable.connect() or "
         "TLSListener.serve(), and a fault: truncation at a seeded ciphertext offset (within "
         "the handshake, mid-record, between records, 1..60 bytes before the end) or one flipped bit. Oracles: bytes read are a "
         "prefix of bytes written (equal when clean); 1 <= len(chunk) <= max_bytes; clean close => EndOfStream; truncation => "
         "BrokenResourceError when standard_compatible (also on the receive() calls that follow the first report), EndOfStream otherwise, never the other way round; with a bit flip never "
         "wrong plaintext; no hang. Exploration level.")

CHECKS["C18"] = dict(engine="bytes-sockets", ref="4 (Engine BYTES, C18)",
    technique="deterministic simulation with fault injection: real anyio socket streams (and the real asyncio selector "
              "transport) over a simulated kernel with bounded buffers, seeded short reads/writes, spurious EAGAIN, in-flight "
              "delays and readiness order; byte-stream, EOF/close, busy and back-pressure oracles",
    text="TCP-like ends (real StreamProtocol + SocketStream on the real _SelectorSocketTransport) and UNIX-like ends (real "
         "UNIXSocketStream on the raw socket; also built through AsyncIOBackend.wrap_stream_socket and through the public "
         "SocketStream.from_socket() / UNIXSocketStream.from_socket() constructors from a socket object in blocking mode) "
         "in all pairings over SimSockets with 1..4096-byte kernel buffers. Both ends "
         "write (1..5000-byte messages) and read (max_bytes from 1, pauses so that buffers fill and writers block) at once; ends "
         "by send_eof and/or close; probes for a second concurrent user of a direction, use after local close and closing while "
         "the own reader is blocked. Oracles: received bytes == sent bytes in order (prefix if the writer was cut off by the "
         "peer's close), 1 <= len(chunk) <= max_bytes, EOF only after everything sent, ClosedResourceError after local close "
         "within 4 loop cycles (never blocking), BusyResourceError for the second user, send() returns with an empty user-space "
         "write buffer (back-pressure), the transport is paused between receive() calls (receive-side back-pressure), a peer "
         "that stays connected and silent after its last send still gets everything across, receive() after EndOfStream neither "
         "blocks nor returns data, no would-block call on a socket left in blocking mode, no deadlock / busy loop. Exploration level.")

CHECKS["C14"] = dict(engine="threads-to_thread", ref="4 (Engine THREADS, C14)",
    technique="deterministic simulation of real threads: baton-passing scheduler (one managed thread runs at a time, seeded "
              "choice at every yield point and, in 40% of the cases, at sys.settrace line events inside anyio's "
              "thread-crossing code) + virtual-time loop, with cancellations injected while thread functions run",
    text="Real anyio worker threads, limiter and from_thread call-backs; blocking in queue.get / Future.result replaced by "
         "predicate parks so that a seeded scheduler owns every interleaving and detects 'all threads parked' as a deadlock. "
         "1-6 caller tasks x 1-2 run_sync calls (limiter 1/2/3/default, abandon_on_cancel on/off, three scope shapes), a timer "
         "cancels the scope at a seeded virtual time, thread-function plans with gates, naps, check_cancelled, from_thread.run "
         "(lock / sleep / failure) and run_sync. Oracles: value / exception identity, context variable visible, running "
         "non-abandoned calls <= limiter total and tokens returned on every path, without abandon the result is delivered and "
         "the pending cancellation hits the next checkpoint (shield respected), with abandon the caller is released within 4 "
         "cycles, check_cancelled() raises iff the host's scope chain is effectively cancelled at that instant, call-backs "
         "return the right value or are cancelled with the host, a caller cancelled while queued for a limiter token is "
         "interrupted within 4 cycles, idle gaps longer than MAX_IDLE_TIME exercise worker pruning, and everything terminates "
         "(deadlock / busy loop detection). Exploration level.")

CHECKS["C15"] = dict(engine="threads-portal", ref="4 (Engine THREADS, C15)",
    technique="deterministic simulation of real threads: baton-passing scheduler over caller threads, the portal's loop thread "
              "and the main thread (seeded choice at every yield point and, in 40% of the cases, at sys.settrace line events "
              "inside anyio/from_thread.py in every thread, the loop thread included), virtual-time loop; future cancellations, "
              "portal stops and context exits injected at seeded scheduling points",
    text="Real BlockingPortal / start_blocking_portal with real caller threads; the scheduler owns every interleaving (yield "
         "points at loop iterations, call_soon_threadsafe, Future.result, thread start/join, loop.close) and reports 'all threads "
         "parked' as a hung call. 1-4 caller threads x 1-5 operations (call, start_task_soon with immediate/late future.cancel, "
         "start_task with started / failure / no started, a callable ending with a cancellation of its own, "
         "wrap_async_context_manager, stop with/without cancel_remaining, graceful then forced stop), portal "
         "inline in anyio.run or in its own thread, main thread leaving early or with an exception; values that are exception "
         "instances; callables raising a non-Exception BaseException (the caller must get it). Oracles: every callable runs "
         "in the loop thread exactly once (0 only if refused or cancelled before it started), value / exception / start value "
         "identity, cancelling a future interrupts exactly that task, calls issued after stop() returned are refused, leaving the "
         "context returns only when no portal task is running, the portal's own task group never fails (portal_crashed), nobody "
         "is left hanging. Exploration level.")

NOT_YET = "check not built yet in this snapshot of /verif (work in progress; see DESIGN.md section 4 for the plan)"


def main():
    checks = []
    for pid in ALL:
        c = CHECKS.get(pid)
        if not c:
            continue
        checks.append({
            "property_id": pid,
            "quick_cmd": f"./check {pid} --tier quick",
            "thorough_cmd": f"./check {pid} --tier thorough",
            "evidence_file": f"evidence/{pid}.json",
            "replay_cmd_template": f"./check {pid} --replay {{path}}",
            "engine": c["engine"],
            "level_claimed": {"category": c.get("level", "exploration"), "text": c["text"],
                              "design_ref": "DESIGN.md section " + c["ref"]},
            "level_note": c.get("note", TRUST),
            "technique": c["technique"],
        })
    engines = {}
    for pid, c in CHECKS.items():
        engines.setdefault(c["engine"], []).append(pid)
    paths = {"sync-permits": "engines/permits.py", "sc": "engines/sc.py", "sync-conditions": "engines/conds.py", "sync-checkpoints": "engines/checkpoints.py", "mem": "engines/mem.py", "sc-deadlines": "engines/deadlines.py", "func-itertools": "engines/func_iter.py", "func-lru": "engines/func_lru.py", "bytes-wrappers": "engines/bytes_buffered.py", "bytes-tls": "engines/bytes_tls.py", "bytes-sockets": "engines/bytes_sock.py", "threads-to_thread": "engines/threads_to.py", "threads-portal": "engines/threads_portal.py"}
    try:
        hooks = [l.split()[0] for l in subprocess.run(
            ["git", "-C", "/repo", "log", "--format=%h %s", "--grep=^hook:"], capture_output=True, text=True
        ).stdout.splitlines()]
    except Exception:
        hooks = []
    man = {
        "version": 1,
        "setup_cmd": "./check selftest-setup",
        "hooks": {
            "guard": "ANYIO_VERIF",
            "enable": "no source hooks are needed: checks import anyio from /repo/src as it is and inject the "
                      "simulator through existing seams (anyio.run loop_factory, module globals, stream "
                      "constructor arguments); ./check exports ANYIO_VERIF=1 for any future guarded hook",
            "baseline_off_cmd": "cd /repo && /venv/bin/python -m pytest -ra -q -p no:cacheprovider --timeout=900 "
                                "--continue-on-collection-errors",
            "source_commits": hooks,
            "add_only": True,
        },
        "engines": [{"name": n, "path": paths.get(n, "engines/"), "serves_properties": sorted(p),
                     "kind_free_text": "deterministic simulation with fault injection (seeded virtual-time asyncio "
                                       "loop, seeded schedules and faults, reference-model oracle)"}
                    for n, p in sorted(engines.items())],
        "checks": checks,
        "notes": "Every check: exit 0 held / exit 1 + 'VIOLATION property=<id> replay=<path>' / exit 2 harness error. "
                 "Known findings: known_findings.json. Replays: replays/. Seeded regressions: seeded/.",
        "not_applicable": [{"property_id": pid, "reason": NOT_YET} for pid in ALL if pid not in CHECKS],
    }
    with open(os.path.join(VERIF, "MANIFEST.json"), "w") as f:
        json.dump(man, f, indent=1)
    print("MANIFEST.json:", len(checks), "checks,", len(man["not_applicable"]), "not applicable")


if __name__ == "__main__":
    main()
