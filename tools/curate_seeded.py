#!/usr/bin/env python3
"""Curate the changes produced by the independent sub-agents (/tmp/wt/out/<prop>/<A|B>) into /verif/seeded/<id>/:

  1. re-base the patch onto /repo's current HEAD (the agents worked on an earlier commit) and store it as patch.diff
  2. confirm the demonstration: exits 0 on the current tree, exits 1 with the patch applied
  3. (with --suite) confirm that the pinned baseline suite still passes with the patch applied
  4. run the registered checks against the patched tree and record which of them report a violation

Everything happens in scratch directories under /tmp that are removed afterwards; /repo is never modified.
usage: curate_seeded.py [--suite] [--only C01-A,...] [--checks-runs N] [--round K]
When the agents' scratch output (/tmp/wt/out<K>) no longer exists, the tool re-verifies the curated copies in seeded/
(demo on the tree / with the patch, registered checks against the patched copy) without rewriting them.
"""
import argparse
import json
import os
import shutil
import subprocess
import sys
import tempfile
import time

OUT = "/tmp/wt/out"
SEEDED = "/verif/seeded"
EXTRA_CHECKS = {          # property of the change -> further checks worth running against it
    "C02": ["C03"], "C04": ["C14"], "C13": ["C12"], "C07": ["C01"], "C05": ["C06"], "C01": ["C03"],
}


def sh(cmd, **kw):
    return subprocess.run(cmd, shell=isinstance(cmd, str), capture_output=True, text=True, **kw)


def rebase(patch, workdir):
    """apply to a copy of /repo (src + tests) with fuzz; return the clean diff against HEAD or None"""
    shutil.copytree("/repo/src", os.path.join(workdir, "src"))
    sh(f"cd {workdir} && git init -q . && git add -A && git -c user.email=x -c user.name=x commit -qm base")
    r = sh(f"cd {workdir} && patch -p1 -F 3 --no-backup-if-mismatch < {patch}")
    if r.returncode != 0:
        return None, r.stdout + r.stderr
    for root, _, files in os.walk(workdir):
        for f in files:
            if f.endswith((".orig", ".rej")):
                os.unlink(os.path.join(root, f))
    d = sh(f"cd {workdir} && git diff")
    return d.stdout, ""


def run_demo(demo, src):
    env = dict(os.environ, PYTHONPATH=src)
    try:
        r = subprocess.run(["/venv/bin/python", demo], env=env, capture_output=True, text=True, timeout=120, cwd=os.path.dirname(demo))
        return r.returncode, (r.stdout + r.stderr).strip().splitlines()[-1:] if (r.stdout + r.stderr).strip() else []
    except subprocess.TimeoutExpired:
        return 124, ["timeout"]


def recheck(a, only):
    """Re-run demo (tree / patched) and the registered checks for the changes already in seeded/."""
    for sid in sorted(os.listdir(SEEDED)):
        if only and sid not in only:
            continue
        dst = os.path.join(SEEDED, sid)
        meta = json.load(open(os.path.join(dst, "meta.json")))
        prop = meta["property"]
        work = tempfile.mkdtemp(prefix="/tmp/seed.")
        try:
            diff, err = rebase(os.path.join(dst, "patch.diff"), work)
            if not diff:
                print(sid, "PATCH DOES NOT APPLY", err[:200])
                continue
            rc0, _ = run_demo(os.path.join(dst, "demo.py"), "/repo/src")
            rc1, _ = run_demo(os.path.join(dst, "demo.py"), os.path.join(work, "src"))
            det = []
            if a.checks_runs:
                for chk in [prop] + EXTRA_CHECKS.get(prop, []):
                    r = subprocess.run(["/verif/check", chk, "--no-evidence"] + (["--runs", str(a.checks_runs)] if a.checks_runs > 0 else []),
                                       env=dict(os.environ, VERIF_ANYIO_SRC=os.path.join(work, "src")), capture_output=True, text=True, timeout=1500)
                    if r.returncode == 1:
                        det.append(chk)
            print(sid, "demo ok" if (rc0, rc1) == (0, 1) else f"DEMO MISMATCH {rc0}/{rc1}", det)
        finally:
            shutil.rmtree(work, ignore_errors=True)


def main():
    ap = argparse.ArgumentParser()
    ap.add_argument("--suite", action="store_true")
    ap.add_argument("--only")
    ap.add_argument("--checks-runs", type=int, default=0)
    ap.add_argument("--round", type=int, default=1, help="2: read /tmp/wt/out2 and store variants A,B as C,D")
    a = ap.parse_args()
    global OUT
    if a.round >= 2:
        OUT = "/tmp/wt/out%d" % a.round
    only = set(a.only.split(",")) if a.only else None
    os.makedirs(SEEDED, exist_ok=True)
    summary = []
    if not os.path.isdir(OUT):
        # the agents' scratch output is gone: re-verify the curated copies in seeded/ themselves (all rounds)
        return recheck(a, only)
    for prop in sorted(os.listdir(OUT)):
        for variant in sorted(os.listdir(os.path.join(OUT, prop))):
            src_dir = os.path.join(OUT, prop, variant)
            if not os.path.isfile(os.path.join(src_dir, "patch.diff")) or not os.path.isfile(os.path.join(src_dir, "demo.py")):
                continue
            letters = {1: dict(A='A', B='B'), 2: dict(A='C', B='D'), 3: dict(A='E', B='F'), 4: dict(A='G', B='H'), 5: dict(A='I', B='J')}[a.round]
            sid = prop + "-" + letters.get(variant, variant + (str(a.round) if a.round > 1 else ""))
            if only and sid not in only:
                continue
            dst = os.path.join(SEEDED, sid)
            meta_path = os.path.join(dst, "meta.json")
            meta = json.load(open(meta_path)) if os.path.exists(meta_path) else {}
            work = tempfile.mkdtemp(prefix="/tmp/seed.")
            try:
                diff, err = rebase(os.path.join(src_dir, "patch.diff"), work)
                if not diff:
                    summary.append((sid, "PATCH DOES NOT APPLY", err[:200]))
                    continue
                os.makedirs(dst, exist_ok=True)
                open(os.path.join(dst, "patch.diff"), "w").write(diff)
                shutil.copy(os.path.join(src_dir, "demo.py"), os.path.join(dst, "demo.py"))
                try:
                    agent_meta = json.load(open(os.path.join(src_dir, "meta.json")))
                except Exception:
                    agent_meta = {}
                rc0, out0 = run_demo(os.path.join(dst, "demo.py"), "/repo/src")
                rc1, out1 = run_demo(os.path.join(dst, "demo.py"), os.path.join(work, "src"))
                meta.update({
                    "id": sid, "property": prop, "summary": agent_meta.get("summary"), "needs": agent_meta.get("needs"),
                    "files": agent_meta.get("files"), "why_tests_pass": agent_meta.get("why_tests_pass"),
                    "origin": "independent sub-agent given only the property text and its own scratch worktree" + ({2: " (second round, on the repaired tree)", 3: " (third round, on the repaired tree)", 4: " (fourth round, with a hint to prefer less obvious code paths)", 5: " (fifth round, same hint, twelve properties)"}.get(a.round, "")),
                    "rebased_on": sh("git -C /repo rev-parse --short HEAD").stdout.strip(),
                    "demo_on_current_tree": {"exit": rc0, "last_line": out0},
                    "demo_with_patch": {"exit": rc1, "last_line": out1},
                    "demo_confirmed": rc0 == 0 and rc1 == 1,
                })
                if a.suite:
                    shutil.copytree("/repo/tests", os.path.join(work, "tests"))
                    for f in ("pyproject.toml",):
                        shutil.copy(os.path.join("/repo", f), work)
                    t0 = time.time()
                    r = sh(f"/verif/tools/baseline_check.py {work}")
                    tail = r.stdout.strip().splitlines()[-3:]
                    ok = r.returncode == 0
                    retried = []
                    if not ok:      # a few tests are load-sensitive: re-run exactly the ones that did not pass, alone
                        miss = [l.split("NOT PASSED:")[1].strip() for l in r.stdout.splitlines() if "NOT PASSED:" in l]
                        ids = []
                        for m in miss:
                            cls, _, name = m.partition("::")
                            parts = cls.split(".")
                            k = next((i for i, p in enumerate(parts) if p[:1].isupper()), len(parts))
                            ids.append("/".join(parts[:k]) + ".py" + "".join("::" + p for p in parts[k:]) + "::" + name)
                        if ids and len(ids) <= 40:
                            r2 = subprocess.run(["/venv/bin/python", "-m", "pytest", "-q", "-p", "no:cacheprovider", "--timeout=900"] + ids,
                                                cwd=work, env=dict(os.environ, PYTHONPATH=os.path.join(work, "src")), capture_output=True, text=True)
                            last = r2.stdout.strip().splitlines()[-1:] if r2.stdout.strip() else []
                            ok = r2.returncode == 0 and "failed" not in " ".join(last) and "error" not in " ".join(last)
                            retried = [{"tests": miss, "rerun_alone": last}]
                            tail = tail + last
                    meta["suite_with_patch"] = {"passes_all_2917_stable_tests": ok, "tail": tail, "seconds": round(time.time() - t0), "retried": retried}
                if a.checks_runs:      # -1 = the quick tier as registered
                    det = {}
                    for chk in [prop] + EXTRA_CHECKS.get(prop, []):
                        env = dict(os.environ, VERIF_ANYIO_SRC=os.path.join(work, "src"))
                        t0 = time.time()
                        r = subprocess.run(["/verif/check", chk, "--no-evidence"] + (["--runs", str(a.checks_runs)] if a.checks_runs > 0 else []), env=env,
                                           capture_output=True, text=True, timeout=1500)
                        line = [l for l in r.stdout.splitlines() if l.startswith("violated rule")]
                        det[chk] = {"exit": r.returncode, "violated": line[0][:300] if line else None, "seconds": round(time.time() - t0, 1),
                                    "cmd": f"VERIF_ANYIO_SRC=<scratch copy with patch>/src ./check {chk} --no-evidence" + (f" --runs {a.checks_runs}" if a.checks_runs > 0 else " (quick tier)")}
                    meta["checks"] = det
                    meta["detected_by"] = [k for k, v in det.items() if v["exit"] == 1]
                json.dump(meta, open(meta_path, "w"), indent=1)
                summary.append((sid, "demo ok" if meta["demo_confirmed"] else f"DEMO MISMATCH {rc0}/{rc1}",
                                meta.get("suite_with_patch", {}).get("passes_all_2917_stable_tests"), meta.get("detected_by")))
            finally:
                shutil.rmtree(work, ignore_errors=True)
    for s in summary:
        print(*s)


if __name__ == "__main__":
    main()
