#!/bin/sh
# usage: tools/soak.sh <first-seed> <last-seed> [tier] [props...]
# Runs every check (or the given ones) once per base seed and reports every run that did not exit 0.
# Meant for `vp run -- tools/soak.sh 100 140`; results are exploratory, not evidence.
cd "$(dirname "$0")/.." || exit 2
A=$1; B=$2; TIER=${3:-quick}; shift 3 2>/dev/null
PROPS=${*:-C01 C02 C03 C04 C05 C06 C07 C08 C09 C10 C11 C12 C13 C14 C15 C16 C17 C18 C19 C20}
BAD=0
s=$A
while [ "$s" -le "$B" ]; do
  for p in $PROPS; do
    VERIF_SEED=$s timeout 3000 ./check $p --tier $TIER --no-evidence > /tmp/soak_$$.log 2>&1
    rc=$?
    if [ $rc -ne 0 ]; then
      BAD=$((BAD+1))
      echo "SOAK-FAIL seed=$s prop=$p exit=$rc"
      grep "^violated\|^new violation\|^VIOLATION\|HARNESS" /tmp/soak_$$.log | cut -c1-1500
      f=$(grep "^VIOLATION" /tmp/soak_$$.log | sed 's/.*replay=//')
      [ -n "$f" ] && [ -f "$f" ] && { echo "--- replay file $f"; head -c 6000 "$f"; echo; }
    else
      echo "ok seed=$s prop=$p $(tail -n 1 /tmp/soak_$$.log | cut -c1-100)"
    fi
  done
  s=$((s+1))
done
rm -f /tmp/soak_$$.log
echo "SOAK DONE failures=$BAD"
