#!/usr/bin/env python3
"""Regenerate DESIGN.md section 0.1 (rules per property + quick-tier figures from evidence/*.json)."""
import json
import os
import re

V = os.path.dirname(os.path.dirname(os.path.abspath(__file__)))
ENG = {"C01": "sc", "C02": "sc", "C03": "sc", "C04": "sc", "C05": "sc", "C07": "sc", "C06": "deadlines", "C08": "checkpoints",
       "C09": "permits", "C10": "permits", "C11": "conds", "C12": "mem", "C13": "mem", "C14": "threads_to", "C15": "threads_portal",
       "C16": "bytes_buffered", "C17": "bytes_tls", "C18": "bytes_sock", "C19": "func_iter", "C20": "func_lru"}
rows = ["| property | engine file | rules (`Cxx.<rule>`) | quick tier: runs / distinct non-trivial / wall |", "|---|---|---|---|"]
for prop, eng in ENG.items():
    src = open(os.path.join(V, "engines", eng + ".py")).read()
    rules = set(re.findall(r"[\"']" + prop + r"\.([a-z_]+)", src))
    generic = set(re.findall(r"\bv\(\s*f?[\"']([a-z_]+)[\"']", src))
    if eng in ("permits", "mem"):
        # shared engines: explicit property tags decide, generic rules belong to both
        tagged = set(re.findall(r"[\"']C\d\d\.([a-z_]+)", src))
        rules |= generic - (tagged - rules)
        if prop == "C10":
            rules.discard("owner")
    elif eng not in ("sc",):
        rules |= generic
    ev = {}
    try:
        ev = json.load(open(os.path.join(V, "evidence", prop + ".json")))
    except Exception:
        pass
    c = ev.get("coverage") or {}
    figs = f"{c.get('evaluations', '?')} / {c.get('distinct_nontrivial', '?')} / {ev.get('wall_s', '?')} s" if ev.get("tier") == "quick" else "(last evidence is from the thorough tier)"
    rows.append(f"| {prop} | `engines/{eng}.py` | {', '.join(sorted(rules))} | {figs} |")
rows.sort(key=lambda r: r[2:5] if r.startswith("| C") else "")
table = "\n".join(rows)
path = os.path.join(V, "DESIGN.md")
s = open(path).read()
s2 = re.sub(r"\| property \| engine file \|.*?\n\n", lambda _: table + "\n\n", s, count=1, flags=re.S)
open(path, "w").write(s2)
print("updated" if s2 != s else "unchanged")
