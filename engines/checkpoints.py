"""Engine SYNC/checkpoints: the checkpoint-discipline table (C08).

cell = operation x immediately-completable state (reached by a short seeded history) x scope
configuration x loop configuration.  The table is finite and enumerated completely; the
state-reaching histories are seeded.  The observation instrument is the simulated loop: a marker
callback queued with call_soon immediately before the call must have run before the call
returns (=> the operation yielded at least once); inside an effectively cancelled scope the call
must raise the cancellation exception and leave the object unchanged.
"""
from __future__ import annotations

import asyncio
import math
import random

from simkit.harness import History, LoopConfig, SimRun, anyio

import anyio.functools as aft
import anyio.itertools as ait
from anyio import (CancelScope, CapacityLimiter, Condition, Event, Future, Lock, Semaphore, create_memory_object_stream,
                   create_task_group, get_cancelled_exc_class, move_on_after, sleep, sleep_until, to_thread)
from anyio.lowlevel import checkpoint

SCOPES_OK = ["plain", "open_scope", "shield_in_cancelled", "shield_in_cancelled_group"]
SCOPES_CANCELLED = ["cancelled", "cancelled_outer", "shielded_and_cancelled", "deadline_past", "cancelled_group",
                    "cancelled_then_entered"]


class Op:
    def __init__(self, name, setup, call, state, exempt_yield=False, cancelled_only=False, variants=3, expect_exc=None):
        self.name = name
        self.setup = setup          # async (rng, k) -> obj
        self.call = call            # async (obj) -> None
        self.state = state          # (obj) -> hashable
        self.exempt_yield = exempt_yield
        self.cancelled_only = cancelled_only
        self.variants = variants
        self.expect_exc = expect_exc


async def _none(rng, k):
    return None


def _mk_lock(fast):
    async def setup(rng, k):
        lock = Lock(fast_acquire=fast)
        for _ in range(k):
            await lock.acquire()
            lock.release()
        if k == 2:
            # a waiter that was cancelled while queued must leave no trace
            await lock.acquire()
            async with create_task_group() as tg:
                tg.start_soon(lock.acquire)
                await sleep(0)
                tg.cancel_scope.cancel()
            lock.release()
        return lock
    return setup


def _mk_sem(fast):
    async def setup(rng, k):
        sem = Semaphore(1 + k % 2 + (k == 2), fast_acquire=fast)
        for _ in range(k):
            await sem.acquire()
            sem.release()
        return sem
    return setup


async def _mk_lim(rng, k):
    lim = CapacityLimiter([1, 2, math.inf][k % 3])
    for _ in range(k):
        await lim.acquire_on_behalf_of("x")
        lim.release_on_behalf_of("x")
    return lim


async def _mk_event(rng, k):
    e = Event()
    for _ in range(k + 1):
        e.set()
    return e


class MemState:
    def __init__(self, bufsize, pre, parked):
        self.send, self.recv = create_memory_object_stream(bufsize)
        self.pre = pre
        self.parked = parked
        self.peer_got = []
        self.peer_sent = []
        self.tg = None


def _mk_mem(kind):
    async def setup(rng, k):
        if kind == "send_room":
            st = MemState([1, 2, math.inf][k % 3], k % 2 if k % 3 else 0, None)
            for i in range(st.pre):
                st.send.send_nowait(("pre", i))
        elif kind == "recv_item":
            st = MemState([1, 3, math.inf][k % 3], 1 + (k % 3 == 1), None)
            for i in range(st.pre):
                st.send.send_nowait(("pre", i))
        elif kind == "send_peer":
            st = MemState(0 if k % 2 == 0 else 1, 0, "receiver")
        else:
            st = MemState(0, 0, "sender")
        return st
    return setup


async def _start_peer(st, tg):
    if st.parked == "receiver":
        async def peer():
            try:
                st.peer_got.append(await st.recv.receive())
            except (anyio.EndOfStream, anyio.ClosedResourceError):
                pass
        tg.start_soon(peer)
    elif st.parked == "sender":
        async def peer():
            try:
                await st.send.send("from-peer")
            except (anyio.BrokenResourceError, anyio.ClosedResourceError):
                return
            st.peer_sent.append(1)
        tg.start_soon(peer)
    if st.parked:
        for _ in range(3):
            await sleep(0)


def _mem_state(st):
    s = st.send.statistics()
    return (s.current_buffer_used, tuple(st.peer_got), tuple(st.peer_sent), s.tasks_waiting_send, s.tasks_waiting_receive)


def _mk_future(kind):
    async def setup(rng, k):
        f = Future()
        if kind == "value":
            f.return_value = ("v", k)
        elif kind == "failed":
            f.exception = ValueError("boom")
        else:
            f.cancel()
        return f
    return setup


async def _mk_handle(rng, k):
    async def c():
        for _ in range(k):
            await sleep(0)
        return k
    async with create_task_group() as tg:
        h = tg.start_soon(c)
    return h


async def _await(x):
    return await x


async def _add(a, b):
    return a + b


async def _truthy(x):
    return bool(x)


async def _traverse(it):
    async for _ in it:
        pass


def _src(k):
    return [[], [1], [1, 0, 2]][k % 3]


class ThreadProbe:
    def __init__(self):
        self.started = []


async def _mk_thread(rng, k):
    return ThreadProbe()


async def _mk_cond_held(rng, k):
    c = Condition()
    for _ in range(k):
        async with c:
            pass
    await c.acquire()
    return c


def _cond_state(c):
    st = c.statistics()
    return (st.lock_statistics.locked, st.lock_statistics.owner.id if st.lock_statistics.owner else None, st.tasks_waiting)


ITER_FNS = {
    "accumulate": lambda s: ait.accumulate(s),
    "batched": lambda s: ait.batched(s, 2),
    "chain": lambda s: ait.chain(s, list(s)),
    "chain_from_iterable": lambda s: ait.chain.from_iterable([s, list(s)]),
    "combinations": lambda s: ait.combinations(s, 2),
    "combinations_with_replacement": lambda s: ait.combinations_with_replacement(s, 2),
    "compress": lambda s: ait.compress(s, [1, 0, 1]),
    "cycle_empty": lambda s: ait.cycle([]),
    "dropwhile": lambda s: ait.dropwhile(_truthy, s),
    "filterfalse": lambda s: ait.filterfalse(_truthy, s),
    "groupby": lambda s: ait.groupby(s),
    "islice": lambda s: ait.islice(s, 2),
    "islice_zero": lambda s: ait.islice(s, 0),
    "islice_count": lambda s: ait.islice(ait.count(), len(s)),
    "islice_cycle": lambda s: ait.islice(ait.cycle(s), 2 * len(s)),
    "pairwise": lambda s: ait.pairwise(s),
    "permutations": lambda s: ait.permutations(s),
    "product": lambda s: ait.product(s, list(s)),
    "repeat": lambda s: ait.repeat(1, len(s)),
    "starmap": lambda s: ait.starmap(_add, [(a, a) for a in s]),
    "takewhile": lambda s: ait.takewhile(_truthy, s),
    "tee": lambda s: ait.tee(s, 2)[1],
    "zip_longest": lambda s: ait.zip_longest(s, list(s) + [9]),
}


def build_ops():
    ops = [
        Op("sleep(0)", _none, lambda o: sleep(0), lambda o: 0, variants=1),
        Op("sleep(-1)", _none, lambda o: sleep(-1), lambda o: 0, variants=1),
        Op("sleep_until(past)", _none, lambda o: sleep_until(anyio.current_time() - 1), lambda o: 0, variants=1),
        Op("checkpoint", _none, lambda o: checkpoint(), lambda o: 0, variants=1),
        Op("Event.wait[set]", _mk_event, lambda e: e.wait(), lambda e: e.is_set()),
        Op("Lock.acquire", _mk_lock(False), lambda l: l.acquire(), lambda l: (l.locked(), l.statistics().tasks_waiting)),
        Op("Lock.acquire[fast]", _mk_lock(True), lambda l: l.acquire(), lambda l: (l.locked(), l.statistics().tasks_waiting),
           exempt_yield=True),
        Op("Lock.__aenter__", _mk_lock(False), lambda l: l.__aenter__(), lambda l: l.locked()),
        Op("Semaphore.acquire", _mk_sem(False), lambda s: s.acquire(), lambda s: s.value),
        Op("Semaphore.acquire[fast]", _mk_sem(True), lambda s: s.acquire(), lambda s: s.value, exempt_yield=True),
        Op("CapacityLimiter.acquire", _mk_lim, lambda l: l.acquire(), lambda l: l.borrowed_tokens),
        Op("CapacityLimiter.acquire_on_behalf_of", _mk_lim, lambda l: l.acquire_on_behalf_of("b"), lambda l: l.borrowed_tokens),
        Op("CapacityLimiter.__aenter__", _mk_lim, lambda l: l.__aenter__(), lambda l: l.borrowed_tokens),
        Op("Condition.acquire", lambda rng, k: _mk_cond_free(k), lambda c: c.acquire(), lambda c: c.locked()),
        Op("Condition.wait[holding]", _mk_cond_held, lambda c: c.wait(), _cond_state, cancelled_only=True),
        Op("memory.send[room]", _mk_mem("send_room"), lambda st: st.send.send("item"), _mem_state),
        Op("memory.send[waiting receiver]", _mk_mem("send_peer"), lambda st: st.send.send("item"), _mem_state, variants=2),
        Op("memory.receive[item buffered]", _mk_mem("recv_item"), lambda st: st.recv.receive(), _mem_state),
        Op("memory.receive[waiting sender]", _mk_mem("recv_peer"), lambda st: st.recv.receive(), _mem_state, variants=1),
        Op("Future.wait[value]", _mk_future("value"), lambda f: f.wait(), lambda f: f.status),
        Op("await Future[value]", _mk_future("value"), _await, lambda f: f.status),
        Op("await Future[failed]", _mk_future("failed"), _await, lambda f: f.status, expect_exc=anyio.FutureFailed, variants=1),
        Op("await Future[cancelled]", _mk_future("cancelled"), _await, lambda f: f.status, expect_exc=anyio.FutureCancelled,
           variants=1),
        Op("TaskHandle.wait[finished]", _mk_handle, lambda h: h.wait(), lambda h: h.status),
        Op("await TaskHandle[finished]", _mk_handle, _await, lambda h: h.status),
        Op("to_thread.run_sync", _mk_thread, lambda p: to_thread.run_sync(p.started.append, 1), lambda p: len(p.started),
           cancelled_only=True, variants=1),
        Op("to_thread.run_sync[abandon_on_cancel]", _mk_thread,
           lambda p: to_thread.run_sync(p.started.append, 1, abandon_on_cancel=True), lambda p: len(p.started),
           cancelled_only=True, variants=1),
        Op("functools.reduce[empty+initial]", _none, lambda o: aft.reduce(_add, [], 5), lambda o: 0, variants=1),
        Op("functools.reduce[single]", _none, lambda o: aft.reduce(_add, [7]), lambda o: 0, variants=1),
        Op("functools.reduce[single+initial, checkpointing callback]", _none, lambda o: aft.reduce(_add_cp, [7], 1),
           lambda o: 0, variants=1),
    ]
    for name, fn in ITER_FNS.items():
        def mk(fn):
            async def setup(rng, k):
                return _src(k)
            return Op("itertools." + name, setup, lambda s: _traverse(fn(list(s))), lambda s: 0)
        op = mk(fn)
        op.name = "itertools." + name
        ops.append(op)
    return ops


async def _add_cp(a, b):
    await checkpoint()
    return a + b


async def _mk_cond_free(k):
    c = Condition()
    for _ in range(k):
        async with c:
            pass
    return c


OPS = None


def cells():
    global OPS
    if OPS is None:
        OPS = build_ops()
    out = []
    for oi, op in enumerate(OPS):
        for k in range(op.variants):
            for sc in (SCOPES_CANCELLED if op.cancelled_only else SCOPES_OK + SCOPES_CANCELLED):
                for eager in (False, True):
                    out.append((oi, k, sc, eager))
    return out


class CellRun:
    def __init__(self, case):
        self.case = case
        self.op = OPS[case["op"]]
        self.sim = SimRun(case["sched_seed"], LoopConfig(eager=case["eager"], cap=4000))
        self.h = History()
        self.viol = []
        self.rng = random.Random(case["sched_seed"])
        self.result = None

    def v(self, rule, detail):
        rid = "C08." + rule
        c = self.case
        self.viol.append({"rule": rid, "sig": f"{rid}:{self.op.name}",
                          "detail": f"[{self.op.name} variant={c['k']} scope={c['scope']} eager={c['eager']}] {detail}"})

    async def main(self):
        self.h.loop = loop = self.sim.loop
        op = self.op
        c = self.case
        obj = await op.setup(self.rng, c["k"])
        noise = c["noise"]
        async with create_task_group() as tg:
            if isinstance(obj, MemState):
                await _start_peer(obj, tg)
            # background tasks so that "yielding" has somebody to yield to
            stop = Event()
            async def bystander():
                while not stop.is_set():
                    await sleep(0)
            for _ in range(noise):
                tg.start_soon(bystander)
            if noise:
                await sleep(0)
            before = op.state(obj)
            transient = []
            sampling = [False]

            def sample():
                # a call made in a cancelled scope must not perform its effect even for a moment: look at the object
                # after every loop cycle while the call is in progress (e.g. Condition.wait must keep the lock)
                if sampling[0] and not transient:
                    now = op.state(obj)
                    if now != before:
                        transient.append(now)
            loop.post_iteration.append(sample)
            ran = []
            outcome = None
            exc = None
            scope_kind = c["scope"]

            async def invoke():
                nonlocal outcome, exc
                loop.call_soon(ran.append, 1)
                self.h.rec("call", op.name)
                sampling[0] = True
                try:
                    try:
                        await op.call(obj)
                    finally:
                        sampling[0] = False
                except get_cancelled_exc_class() as e:
                    outcome = "cancelled"
                    self.h.rec("cancelled")
                    self.yielded = bool(ran)
                    raise
                except BaseException as e:
                    outcome = "raised"
                    exc = e
                    self.yielded = bool(ran)
                    self.h.rec("raised", type(e).__name__)
                else:
                    outcome = "ok"
                    self.yielded = bool(ran)
                    self.h.rec("returned")

            if scope_kind == "plain":
                await invoke()
            elif scope_kind == "open_scope":
                with CancelScope():
                    await invoke()
            elif scope_kind == "shield_in_cancelled":
                with CancelScope() as outer:
                    outer.cancel()
                    with CancelScope(shield=True):
                        await invoke()
            elif scope_kind == "shield_in_cancelled_group":
                async with create_task_group() as g2:
                    g2.cancel_scope.cancel()
                    with CancelScope(shield=True):
                        await invoke()
            elif scope_kind == "cancelled":
                with CancelScope() as s:
                    s.cancel()
                    await invoke()
            elif scope_kind == "cancelled_outer":
                with CancelScope() as s:
                    s.cancel()
                    with CancelScope():
                        await invoke()
            elif scope_kind == "shielded_and_cancelled":
                with CancelScope(shield=True) as s:
                    s.cancel()
                    await invoke()
            elif scope_kind == "deadline_past":
                with CancelScope(deadline=loop.time() - 1):
                    await invoke()
            elif scope_kind == "cancelled_then_entered":
                s = CancelScope()
                s.cancel()
                with s:
                    await invoke()
            elif scope_kind == "cancelled_group":
                try:
                    async with create_task_group() as g2:
                        g2.cancel_scope.cancel()
                        await invoke()
                except get_cancelled_exc_class():
                    raise
            after = op.state(obj)
            expect_cancel = scope_kind in SCOPES_CANCELLED
            if expect_cancel:
                if outcome != "cancelled":
                    self.v("no_raise", f"completed ({outcome}{'' if exc is None else ' ' + repr(exc)}) inside an effectively "
                                       f"cancelled scope instead of raising the cancellation exception")
                if after != before:
                    self.v("effect", f"the call in a cancelled scope changed the object: {before} -> {after}")
                elif transient:
                    self.v("effect", f"the call in a cancelled scope performed its effect before it raised: the object was "
                                     f"{before}, became {transient[0]} while the call was in progress and was restored")
            else:
                if outcome == "cancelled":
                    self.v("spurious_cancel", "raised a cancellation although the caller's scope is not effectively cancelled")
                elif op.expect_exc is not None:
                    if outcome != "raised" or not isinstance(exc, op.expect_exc):
                        self.v("result", f"expected {op.expect_exc.__name__}, got {outcome} {exc!r}")
                elif outcome != "ok":
                    self.v("result", f"unexpected exception {exc!r}")
                if not self.yielded and not op.exempt_yield:
                    self.v("no_yield", "returned without yielding to the event loop (a callback queued just before the "
                                       "call had not run when it returned)")
            self.result = (outcome, self.yielded, before == after)
            stop.set()
            # release what the call took, let parked peers finish
            if isinstance(obj, MemState):
                obj.send.close()
                obj.recv.close()
            tg.cancel_scope.cancel()

    def execute(self):
        sim = self.sim
        sim.run(self.main)
        if sim.outcome in ("deadlock", "itercap"):
            self.v("stuck", f"{sim.outcome}: {sim.error}")
        elif sim.outcome == "exc":
            import traceback
            self.v("error", "unexpected exception: " + "".join(traceback.format_exception(sim.error))[-1200:])
        loop = sim.loop
        c = self.case
        return {"violations": self.viol, "digest": self.h.digest((c["op"], c["k"], c["scope"], c["eager"], self.result)),
                "faults": dict(sim.faults), "nontrivial": True, "vtime": loop._vnow if loop else 0.0,
                "iters": loop.iterations if loop else 0, "steps": self.h.seq, "probes": {},
                "cfg": [("eager" if c["eager"] else "stock") + ":" + c["scope"]], "history_text": self.h.text()}


class CheckpointCheck:
    prop = "C08"
    engine = "sync-checkpoints"
    level = "exploration"
    recheck = 64
    components = {
        "real": ["anyio sleep/checkpoint, Event, Lock, Semaphore, CapacityLimiter, Condition, memory object streams, Future, "
                 "TaskHandle, to_thread.run_sync (cancelled cells), functools.reduce, all anyio.itertools functions",
                 "anyio CancelScope / TaskGroup", "asyncio Task/Future"],
        "stub": ["event loop (SimLoop: virtual time; it is also the observation instrument for 'yielded')",
                 "set iteration order inside anyio (SimSet)"],
    }
    assumptions = [
        "asyncio backend, stock and eager task factory; uvloop not simulated",
        "to_thread.run_sync is only exercised in cancelled scopes here (no thread may start); its yielding behaviour "
        "with a real worker thread is covered by the thread engine (C14)",
        "functools.reduce over >= 2 elements with a non-suspending callback is not a cell (anyio delegates the checkpoint "
        "to the callback; see DESIGN.md C08)",
        "fast_acquire cells are exempt from the yield requirement only; in a cancelled scope they must still raise",
    ]
    fault_kinds = ["set_order"]
    rule_text = ("cells = operation (%d rows: sleep(0)/sleep(<0)/sleep_until(past)/checkpoint, Event.wait on a set event, "
                 "uncontended Lock/Semaphore/CapacityLimiter/Condition acquire incl. fast_acquire and __aenter__, "
                 "Condition.wait and to_thread.run_sync entered in a cancelled scope, memory send with room / with a "
                 "parked receiver, receive with buffered items / with a parked sender, finished Future and TaskHandle "
                 "(wait and await), functools.reduce without callback invocation, every anyio.itertools function on "
                 "empty/singleton/longer input) x state variant (seeded short history) x scope configuration (4 not "
                 "cancelled: plain, open scope, shield inside cancelled scope / group; 6 effectively cancelled: cancelled, "
                 "cancelled outer, shielded-and-cancelled, past deadline, cancelled group, cancelled before entry) x "
                 "{stock, eager}; the whole table is enumerated; additional repetitions vary the number of runnable "
                 "bystander tasks; every cell is non-trivial; distinct = SHA1 of (cell, outcome, history)")

    def __init__(self):
        self.cells = cells()
        n = len(self.cells)
        self.budgets = {"quick": (n * 3, 90), "thorough": (n * 40, 900)}

    def bounds(self, tier):
        return {"operations": len(OPS), "cells": len(self.cells), "state_variants_per_op": "1-3",
                "bystander_tasks": [0, 3], "repetitions_per_cell": 3 if tier == "quick" else 40}

    def extra_evidence(self, tier):
        return {"exhaustive": True, "table_cells": len(self.cells), "operations": [op.name for op in OPS]}

    def gen_case_indexed(self, index, seed, tier):
        oi, k, sc, eager = self.cells[index % len(self.cells)]
        rng = random.Random(seed)
        rep = index // len(self.cells)
        return {"engine": "checkpoints", "prop": "C08", "op": oi, "opname": OPS[oi].name, "k": k, "scope": sc,
                "eager": eager, "noise": 0 if rep == 0 else rng.randint(0, 3), "sched_seed": rng.getrandbits(32)}

    def gen_case(self, seed, tier):
        return self.gen_case_indexed(random.Random(seed).randrange(len(self.cells)), seed, tier)

    def run_case(self, case):
        cells()
        return CellRun(case).execute()
