"""Engine BYTES/wrappers (C16): BufferedByteReceiveStream and the text stream wrappers.

The schedule is the chunking: the wrapped stream is a Wire whose fragments, delays, EOF position and
interleaved feed_data() calls are seeded decisions, as are the call sequence (receive / receive_exactly /
receive_until with all small parameters) and the deadlines that cancel calls mid-way (the call is then
retried).  Model: one byte queue.  Inputs over the alphabet {a, b, |} are enumerated up to length 6; the
chunkings, call sequences and cancel instants are sampled per input.
"""
from __future__ import annotations

import codecs
import copy
import itertools
import random

from simkit.harness import History, LoopConfig, SimRun, anyio

from anyio import (ClosedResourceError, DelimiterNotFound, EndOfStream, IncompleteRead, create_task_group,
                   get_cancelled_exc_class, move_on_after, sleep)
from anyio.abc import ByteReceiveStream, ByteStream, ObjectReceiveStream, ObjectSendStream, ObjectStream
from anyio.streams.buffered import BufferedByteReceiveStream, BufferedByteStream, BufferedConnectable
from anyio.streams.text import TextConnectable, TextReceiveStream, TextSendStream, TextStream

ALPHA = b"ab|"
DELIMS = [b"|", b"||", b"a|", b"ab"]
TEXT_ALPHA = "aé€\U0001f600\nЖ"
ENCODINGS = ["utf-8", "utf-16", "utf-32", "latin-1", "utf-16-le", "utf-8-sig"]


class ByteWire(ByteReceiveStream):
    """Byte stream honouring max_bytes; hands out seeded fragments after seeded virtual delays."""

    def __init__(self, data, chunks, delays, stats):
        self.data = bytearray(data)
        self.chunks = list(chunks)
        self.delays = list(delays)
        self.i = 0
        self.stats = stats

    def _next(self):
        k = self.chunks[self.i % len(self.chunks)] if self.chunks else 1000
        d = self.delays[self.i % len(self.delays)] if self.delays else 0
        return k, d

    async def receive(self, max_bytes=65536):
        k, d = self._next()
        await sleep(d)
        if not self.data:
            self.stats["peer_eof"] += 1
            raise EndOfStream
        self.i += 1
        n = min(max_bytes, len(self.data), k)
        if n < len(self.data):
            self.stats["fragment"] += 1
        out = bytes(self.data[:n])
        del self.data[:n]
        return out

    async def aclose(self):
        pass


class ObjWire(ObjectReceiveStream):
    """Object stream of bytes (ignores max_bytes, like a memory object stream of chunks)."""

    def __init__(self, data, chunks, delays, stats):
        self.data = bytearray(data)
        self.chunks = list(chunks)
        self.delays = list(delays)
        self.i = 0
        self.stats = stats

    async def receive(self):
        k = self.chunks[self.i % len(self.chunks)] if self.chunks else 1000
        d = self.delays[self.i % len(self.delays)] if self.delays else 0
        await sleep(d)
        if not self.data:
            self.stats["peer_eof"] += 1
            raise EndOfStream
        self.i += 1
        n = min(len(self.data), k)
        if n < len(self.data):
            self.stats["fragment"] += 1
        out = bytes(self.data[:n])
        del self.data[:n]
        return out

    async def aclose(self):
        pass


class Collect(ObjectSendStream):
    def __init__(self):
        self.chunks = []

    async def send(self, item):
        self.chunks.append(bytes(item))

    async def aclose(self):
        pass


class DuplexByte(ByteStream):
    """A bidirectional byte stream: receives from a ByteWire, collects what is sent."""

    def __init__(self, wire, sink=None):
        self.wire = wire
        self.sink = sink or Collect()

    async def receive(self, max_bytes=65536):
        return await self.wire.receive(max_bytes)

    async def send(self, item):
        await self.sink.send(item)

    async def send_eof(self):
        pass

    async def aclose(self):
        pass


class DuplexObj(ObjectStream):
    """The same over an object stream of bytes."""

    def __init__(self, wire, sink=None):
        self.wire = wire
        self.sink = sink or Collect()

    async def receive(self):
        return await self.wire.receive()

    async def send(self, item):
        await self.sink.send(item)

    async def send_eof(self):
        pass

    async def aclose(self):
        pass


class OneShotConnectable:
    def __init__(self, stream):
        self.stream = stream

    async def connect(self):
        return self.stream


def duplex(wire, sink=None):
    return (DuplexByte if isinstance(wire, ByteWire) else DuplexObj)(wire, sink)


def gen_ops(rng, n):
    ops = []
    for _ in range(n):
        r = rng.random()
        timeout = rng.choice([None, None, None, 0, 0.125, 0.25])
        if r < 0.3:
            ops.append(["recv", rng.randint(1, 4), timeout])
        elif r < 0.55:
            ops.append(["exact", rng.randint(0, 5), timeout])
        elif r < 0.85:
            ops.append(["until", rng.randrange(len(DELIMS)), rng.randint(1, 6), timeout])
        else:
            ops.append(["feed", [rng.choice(ALPHA) for _ in range(rng.randint(0, 3))]])
    return ops


class BufRun:
    def __init__(self, case):
        self.case = case
        self.sim = SimRun(case["sched_seed"], LoopConfig(cap=50000, eager=case.get("eager", False)))
        self.faults = self.sim.faults
        self.viol = []
        self.h = History()
        self.nontrivial = False

    def v(self, rule, detail):
        if len(self.viol) < 8:
            c = self.case
            self.viol.append({"rule": "C16." + rule, "sig": "C16." + rule,
                              "detail": f"{detail}; input={bytes(c['data'])!r} wire={c['wire']} chunks={c['chunks']} ops={c['ops']}"})

    async def main(self):
        self.h.loop = self.sim.loop
        c = self.case
        data = bytes(c["data"])
        wire = (ByteWire if c["wire"] == "byte" else ObjWire)(data, c["chunks"], c["delays"], self.faults)
        via = c.get("via", "direct")       # the same receive API through its three constructors
        if via == "stream":
            b = BufferedByteStream(duplex(wire))
        elif via == "connectable":
            b = await BufferedConnectable(OneShotConnectable(duplex(wire))).connect()
        else:
            b = BufferedByteReceiveStream(wire)
        logical = bytearray(data)       # the logical stream: fed bytes are inserted after the buffered ones
        out = bytearray()               # handed out, delimiters included
        Cancelled = get_cancelled_exc_class()
        for op in c["ops"]:
            pos = len(out)
            kind = op[0]
            if kind == "feed":
                x = bytes(op[1])
                at = len(out) + len(b.buffer)
                logical[at:at] = x
                b.feed_data(x)
                self.faults["feed_data"] += 1
                self.h.rec("feed", x)
                continue
            timeout = op[-1]
            attempts = 0
            while True:
                attempts += 1
                res = None
                err = None
                with move_on_after(timeout if attempts == 1 else None) as sc:
                    try:
                        if kind == "recv":
                            res = await b.receive(op[1])
                        elif kind == "exact":
                            res = await b.receive_exactly(op[1])
                        else:
                            delim = DELIMS[op[1]]
                            res = await b.receive_until(delim, op[2])
                    except (EndOfStream, IncompleteRead, DelimiterNotFound) as e:
                        err = e
                if sc.cancelled_caught:
                    # a cancelled call consumes nothing; retry it without a deadline
                    self.faults["cancel_mid_call"] += 1
                    self.nontrivial = True
                    self.h.rec(kind, "cancelled")
                    if bytes(out) + b.buffer + bytes(wire.data) != bytes(logical):
                        self.v("cancel_consumed", f"after a cancelled {kind} call: handed out {bytes(out)!r} + buffer {b.buffer!r} + "
                                                  f"wire {bytes(wire.data)!r} != input {bytes(logical)!r}")
                        return
                    continue
                break
            self.h.rec(kind, repr(res), type(err).__name__ if err else None)
            if err is None:
                if kind == "recv":
                    if not (1 <= len(res) <= op[1]):
                        self.v("receive_size", f"receive({op[1]}) returned {len(res)} bytes: {res!r}")
                    out += res
                elif kind == "exact":
                    if len(res) != op[1]:
                        self.v("exact_size", f"receive_exactly({op[1]}) returned {len(res)} bytes: {res!r}")
                    out += res
                else:
                    if delim in res:
                        self.v("until_delimiter", f"receive_until({delim!r}, {op[2]}) returned {res!r}, which contains the delimiter")
                    exp_idx = bytes(logical[pos:]).find(delim)
                    if exp_idx < 0 or bytes(logical[pos:pos + exp_idx]) != res:
                        self.v("until_value", f"receive_until({delim!r}, {op[2]}) returned {res!r}; the stream from there is "
                                              f"{bytes(logical[pos:])!r}")
                    out += res + delim
            elif isinstance(err, EndOfStream):
                if kind != "recv":
                    self.v("wrong_error", f"{kind} raised EndOfStream")
                if wire.data or b.buffer:
                    self.v("eos_with_data", f"receive raised EndOfStream with buffer {b.buffer!r} and wire {bytes(wire.data)!r}")
            elif isinstance(err, IncompleteRead):
                if wire.data:
                    self.v("incomplete_not_at_eof", f"{kind} raised IncompleteRead while the wire still holds {bytes(wire.data)!r}")
                if kind == "exact" and len(logical) - pos >= op[1]:
                    self.v("incomplete_not_at_eof", f"receive_exactly({op[1]}) raised IncompleteRead with {len(logical) - pos} bytes left")
                if kind == "until" and delim in bytes(logical[pos:]):
                    rest = bytes(logical[pos:])
                    if rest.find(delim) + len(delim) <= max(op[2], 0) + len(delim):
                        self.v("incomplete_not_at_eof", f"receive_until({delim!r}, {op[2]}) raised IncompleteRead although the "
                                                        f"delimiter follows in {rest!r}")
            elif isinstance(err, DelimiterNotFound):
                rest = bytes(logical[pos:])
                if delim in rest[:op[2]]:
                    self.v("delimiter_not_found", f"receive_until({delim!r}, {op[2]}) raised DelimiterNotFound although the delimiter "
                                                  f"is within the first {op[2]} bytes of {rest!r}")
            if err is not None and len(out) != pos:
                self.v("failed_consumed", f"a failed {kind} call consumed data")
            whole = bytes(out) + b.buffer + bytes(wire.data)
            if whole != bytes(logical):
                self.v("conservation", f"after {op}: handed out {bytes(out)!r} + buffer {b.buffer!r} + wire {bytes(wire.data)!r} "
                                       f"!= input {bytes(logical)!r}")
                return
            if bytes(logical[:len(out)]) != bytes(out):
                self.v("prefix", f"handed-out bytes {bytes(out)!r} are not a prefix of the input {bytes(logical)!r}")
                return

    def execute(self):
        sim = self.sim
        sim.run(self.main)
        if sim.outcome != "ok":
            self.v("error", f"{sim.outcome}: {sim.error!r}")
        loop = sim.loop
        return {"violations": self.viol, "digest": self.h.digest((bytes(self.case["data"]), self.case["wire"])),
                "faults": dict(self.faults), "nontrivial": True, "vtime": loop._vnow if loop else 0.0,
                "iters": loop.iterations if loop else 0, "steps": self.h.seq, "probes": {"buffered_cases": 1},
                "cfg": ["buffered:" + self.case["wire"]], "history_text": self.h.text(60)}


class TextRun:
    def __init__(self, case):
        self.case = case
        self.sim = SimRun(case["sched_seed"], LoopConfig(cap=50000, eager=case.get("eager", False)))
        self.faults = self.sim.faults
        self.viol = []
        self.probes = {"text_cases": 1}
        self.h = History()

    def v(self, rule, detail):
        if len(self.viol) < 8:
            c = self.case
            self.viol.append({"rule": "C16." + rule, "sig": "C16." + rule + ":" + c["encoding"],
                              "detail": f"{detail}; text={c['text']!r} encoding={c['encoding']} pieces={c.get('pieces')} chunks={c['chunks']}"})

    async def drain(self, t):
        out = []
        try:
            while True:
                x = await t.receive()
                if x == "":
                    self.probes["text_receive_returned_empty_string"] = self.probes.get("text_receive_returned_empty_string", 0) + 1
                out.append(x)
        except EndOfStream:
            pass
        return out

    async def main(self):
        self.h.loop = self.sim.loop
        c = self.case
        enc = c["encoding"]
        text = c["text"]
        if c["mode"] == "receive":
            raw = text.encode(enc)
            wire = (ByteWire if c["wire"] == "byte" else ObjWire)(raw, c["chunks"], c["delays"], self.faults)
            via = c.get("via", "direct")
            if via == "stream":
                rs = TextStream(duplex(wire), encoding=enc)
            elif via == "connectable" and enc == "utf-8":
                rs = await TextConnectable(OneShotConnectable(duplex(wire))).connect()
            else:
                rs = TextReceiveStream(wire, encoding=enc)
            out = await self.drain(rs)
            self.h.rec("text", tuple(out))
            if "".join(out) != raw.decode(enc):
                self.v("text_receive", f"received {out!r}, the input decodes to {raw.decode(enc)!r}")
        else:
            sink = Collect()
            via = c.get("via", "direct")
            ts = TextStream(duplex(ObjWire(b"", [1], [0], self.faults), sink), encoding=enc) if via != "direct" else TextSendStream(sink, encoding=enc)
            pieces = c["pieces"]
            for p in pieces:
                await ts.send(p)
            raw = b"".join(sink.chunks)
            wire = (ByteWire if c["wire"] == "byte" else ObjWire)(raw, c["chunks"], c["delays"], self.faults)
            out = await self.drain(TextStream(duplex(wire), encoding=enc) if via != "direct" else TextReceiveStream(wire, encoding=enc))
            self.h.rec("roundtrip", tuple(out))
            if "".join(out) != "".join(pieces):
                self.v("text_roundtrip", f"sent {pieces!r} through TextSendStream, TextReceiveStream yields {''.join(out)!r}")

    def execute(self):
        sim = self.sim
        sim.run(self.main)
        if sim.outcome != "ok":
            self.v("error", f"{sim.outcome}: {sim.error!r}")
        loop = sim.loop
        c = self.case
        return {"violations": self.viol, "digest": self.h.digest((c["text"], c["encoding"], c["mode"], tuple(c["chunks"]))),
                "faults": dict(self.faults), "nontrivial": True, "vtime": loop._vnow if loop else 0.0,
                "iters": loop.iterations if loop else 0, "steps": self.h.seq, "probes": self.probes,
                "cfg": ["text:" + c["mode"] + ":" + c["encoding"]], "history_text": self.h.text(20)}


def all_inputs(maxlen):
    out = [b""]
    for n in range(1, maxlen + 1):
        out.extend(bytes(t) for t in itertools.product(ALPHA, repeat=n))
    return out


class BufferedCheck:
    prop = "C16"
    engine = "bytes-wrappers"
    level = "exploration"
    components = {
        "real": ["anyio.streams.buffered.BufferedByteReceiveStream, anyio.streams.text.TextReceiveStream / TextSendStream",
                 "anyio move_on_after (cancellation of calls mid-way)", "codecs incremental decoders"],
        "stub": ["the wrapped transport (Wire: byte stream honouring max_bytes / object stream of bytes; seeded fragments, "
                 "delays, EOF)", "event loop and clock (SimLoop)"],
    }
    assumptions = [
        "the wrapped stream never loses data when its receive() is cancelled (the Wire removes bytes only when it returns them)",
        "text inputs are valid in the chosen encoding (strings that the encoding cannot represent are skipped)",
    ]
    fault_kinds = ["fragment", "peer_eof", "feed_data", "cancel_mid_call"]

    def __init__(self):
        self.inputs = all_inputs(6)
        self.budgets = {"quick": (len(self.inputs) * 12 + 30000, 90), "thorough": (len(self.inputs) * 200 + 3_000_000, 1200)}
        self.rule_text = (
            "buffered part: every byte string over {a,b,|} up to length 6 (%d inputs, enumerated) x 12 (quick) / 200 (thorough) "
            "seeded (wire kind, chunking, delays, call sequence of receive(1..4) / receive_exactly(0..5) / "
            "receive_until(4 delimiters, 1..6) / feed_data, per-call deadlines that cancel mid-way and retry); text part: seeded "
            "strings over a 6-symbol alphabet with 1-4 byte code points x 6 encodings x seeded chunkings (incl. every 2-way "
            "split) x {receive, send->receive round trip in 1-4 pieces}; distinct = SHA1 of (input, wire kind, observed call "
            "results); every case is non-trivial (each exercises a chunking)" % len(self.inputs))

    def bounds(self, tier):
        return {"alphabet": "ab|", "enumerated_input_length": 6, "inputs": len(self.inputs), "delimiters": [d.decode() for d in DELIMS],
                "max_bytes": [1, 6], "receive_sizes": [1, 4], "exact_sizes": [0, 5], "encodings": ENCODINGS,
                "text_length": [0, 8]}

    def extra_evidence(self, tier):
        return {"inputs_enumerated": True, "chunkings_sampled": True}

    def gen_case_indexed(self, index, seed, tier):
        rng = random.Random(seed)
        reps = 12 if tier == "quick" else 200
        base = {"sched_seed": rng.getrandbits(32), "eager": rng.random() < 0.2}
        if index < len(self.inputs) * reps:
            data = self.inputs[index % len(self.inputs)]
        elif rng.random() < 0.5:
            return self.gen_text(rng, base)
        else:
            data = bytes(rng.choice(ALPHA) for _ in range(rng.randint(7, 20)))
        nchunks = rng.randint(1, 6)
        wire = rng.choice(["byte", "obj"])
        chunks = [rng.choice([1, 1, 2, 3, 5, 1000]) for _ in range(nchunks)]
        if wire == "obj" and rng.random() < 0.3:
            chunks.insert(rng.randint(0, len(chunks)), 0)      # an empty chunk from an object stream of bytes
        base["via"] = rng.choice(["direct", "direct", "stream", "connectable"])
        base.update({"engine": "buffered", "type": "buf", "data": list(data), "wire": wire,
                     "chunks": chunks,
                     "delays": [rng.choice([0, 0, 0.125, 0.25]) for _ in range(rng.randint(1, 4))],
                     "ops": gen_ops(rng, rng.randint(1, 10))})
        return base

    def gen_text(self, rng, base):
        enc = rng.choice(ENCODINGS)
        while True:
            text = "".join(rng.choice(TEXT_ALPHA) for _ in range(rng.randint(0, 8)))
            try:
                raw = text.encode(enc)
                break
            except UnicodeEncodeError:
                continue
        mode = rng.choice(["receive", "roundtrip"])
        if rng.random() < 0.4 and len(raw) > 1:
            cut = rng.randint(1, len(raw) - 1)
            chunks = [cut, 1000]
        else:
            chunks = [rng.choice([1, 1, 2, 3, 5, 1000]) for _ in range(rng.randint(1, 6))]
        wire = rng.choice(["byte", "obj"])
        if wire == "obj" and rng.random() < 0.4:
            # an object stream of bytes may deliver empty chunks, also in the middle of a multi-byte character
            chunks = list(chunks)
            chunks.insert(rng.randint(0, len(chunks)), 0)
        base["via"] = rng.choice(["direct", "direct", "stream", "connectable"])
        base.update({"engine": "buffered", "type": "text", "text": text, "encoding": enc, "mode": mode,
                     "wire": wire, "chunks": chunks,
                     "delays": [rng.choice([0, 0, 0.125]) for _ in range(rng.randint(1, 3))]})
        if mode == "roundtrip":
            k = rng.randint(1, 4)
            cuts = sorted(rng.randint(0, len(text)) for _ in range(k - 1))
            pieces = [text[a:b] for a, b in zip([0] + cuts, cuts + [len(text)])]
            base["pieces"] = pieces
        return base

    def gen_case(self, seed, tier):
        return self.gen_case_indexed(10**9, seed, tier)

    def run_case(self, case):
        return (BufRun if case["type"] == "buf" else TextRun)(case).execute()

    def shrinks(self, case):
        if case["type"] == "buf":
            for i in range(len(case["ops"])):
                c = copy.deepcopy(case)
                del c["ops"][i]
                yield c
            for i in range(len(case["data"])):
                c = copy.deepcopy(case)
                del c["data"][i]
                yield c
            for i, op in enumerate(case["ops"]):
                if op[0] != "feed" and op[-1] is not None:
                    c = copy.deepcopy(case)
                    c["ops"][i][-1] = None
                    yield c
            if len(case["chunks"]) > 1:
                c = copy.deepcopy(case)
                c["chunks"] = c["chunks"][:1]
                yield c
            if any(case["delays"]):
                c = copy.deepcopy(case)
                c["delays"] = [0]
                yield c
        else:
            if case.get("pieces") and len(case["pieces"]) > 1:
                c = copy.deepcopy(case)
                c["pieces"] = [c["pieces"][0] + c["pieces"][1]] + c["pieces"][2:]
                yield c
            for i in range(len(case["text"])):
                if case["mode"] == "receive":
                    c = copy.deepcopy(case)
                    c["text"] = c["text"][:i] + c["text"][i + 1:]
                    yield c
            if len(case["chunks"]) > 1:
                c = copy.deepcopy(case)
                c["chunks"] = c["chunks"][:1]
                yield c
