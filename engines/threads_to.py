"""Engine THREADS/to_thread (C14): to_thread.run_sync and from_thread call-backs under baton scheduling.

Real worker threads (anyio's own WorkerThread class, limiter, RunVars), real from_thread.run / run_sync /
check_cancelled; the *blocking* of queue.get and concurrent.futures.Future.result is replaced by predicate
parks so that a seeded scheduler decides which thread runs after every yield point.

Workload: N caller tasks each issue one or two to_thread.run_sync calls (own limiter of 1..3 tokens or the
default limiter, abandon_on_cancel on/off) from one of three scope shapes (plain scope; shielded scope
inside a scope that gets cancelled; shielded scope that is itself cancelled); a timer cancels the target
scope at a seeded virtual time.  The thread functions are harness-built plans: gates (yield points), naps
(park until the loop's virtual clock has advanced - this is how a cancellation lands *while* the function
runs), from_thread.check_cancelled(), from_thread.run (coroutines that sleep, take an uncontended lock or
fail), from_thread.run_sync, then return a unique value or raise a unique exception.
"""
from __future__ import annotations

import asyncio
import concurrent.futures
import contextvars
import copy
import random
import threading

from simkit import baton
from simkit.baton import BatonAbort, BatonLoop
from simkit.harness import History, LoopConfig, SimRun, anyio

from anyio import (CancelScope, CapacityLimiter, Lock, create_task_group, from_thread, get_cancelled_exc_class, sleep,
                   to_thread)
from anyio.lowlevel import checkpoint

CV = contextvars.ContextVar("verif_cv", default=None)
RELEASE_LAT = 4
STEPS = ["gate", "gate", "nap", "nap", "check", "cb_lock", "cb_sleep", "cb_fail", "cb_sync", "raise", "raise_sai", "raise_base"]


class FnErr(Exception):
    pass


class CbErr(Exception):
    pass


class FalsyFnErr(FnErr):
    """false in a boolean context: `if exception:` is not a test for "the function raised" """

    def __bool__(self):
        return False


class FnBaseErr(BaseException):
    pass


def gen_case(seed, tier, prop="C14"):
    rng = random.Random(seed)
    big = tier == "thorough"
    ncallers = rng.randint(1, 6 if big else 4)
    callers = []
    for i in range(ncallers):
        calls = []
        for _ in range(rng.choice([1, 1, 2])):
            plan = [rng.choice(STEPS) for _ in range(rng.randint(0, 5 if big else 4))]
            for r in ("raise", "raise_sai", "raise_base"):
                if r in plan:
                    plan = plan[:plan.index(r) + 1]
            # 10.5 virtual seconds: longer than WorkerThread.MAX_IDLE_TIME, so that idle workers are pruned
            calls.append({"pre": rng.choice([0, 0, 0, 0.125, 0.125, 0.25, 0.25, 10.5]), "abandon": rng.random() < 0.35,
                          "shape": rng.choice(["plain", "plain", "shield_inner", "shield_self"]),
                          "cancel_after": rng.choice([None, None, 0, 0.0625, 0.125, 0.25, 0.5]),
                          "naps": [rng.choice([0.125, 0.25, 0.5]) for _ in range(3)], "plan": plan,
                          "ret": rng.choice(["tuple", "tuple", "none", "exc"])})
        callers.append(calls)
    loop = LoopConfig(eager=rng.random() < 0.25, cap=30000, p_late=rng.choice([0, 0, 0.2])).to_json()
    return {"engine": "threads_to", "prop": "C14", "total": rng.choice([1, 1, 2, 3, "default"]), "callers": callers,
            "loop": loop, "sched_seed": rng.getrandbits(32),
            "preempt": rng.choice([0, 0, 0, 0.03, 0.15])}


class ToThreadRun:
    def __init__(self, case):
        self.case = case
        self.h = History()
        self.viol = []
        self.probes = {}
        self.nontrivial = False
        self.faults = None
        self.loop_done = False

    def v(self, rule, detail, sig=None):
        lp = getattr(self, "loop", None)
        if lp is not None and lp.aborting and rule != "stuck":
            return          # teardown after a deadlock / busy-loop report
        if len(self.viol) < 8:
            self.viol.append({"rule": "C14." + rule, "sig": sig or "C14." + rule,
                              "detail": f"[limiter={self.case['total']}] {detail} (seq={self.h.seq})"})

    def bump(self, k):
        self.probes[k] = self.probes.get(k, 0) + 1

    # -- code that runs in worker threads -----------------------------------------------------------
    def nap(self, d):
        """Park this thread until the loop's virtual clock has advanced by d."""
        loop = self.loop
        target = loop.time() + d
        if self.loop_done:
            return                  # an abandoned function outliving the loop: nothing to wait for
        try:
            loop.call_soon_threadsafe(loop.call_later, d, lambda: None)
        except RuntimeError:
            return
        baton.S.block_until(lambda: loop.time() >= target or self.loop_done, "nap")
        self.faults["thread_nap"] += 1

    def effective(self, st):
        """Is the host task's scope chain (as seen from the call) effectively cancelled right now?"""
        shape = st["shape"]
        if shape == "shield_inner":
            return False                      # the cancelled scope lies beyond a shield
        return st["scope"].cancel_called

    def fn(self, st):
        cid = st["cid"]
        st["started"] = True
        st["start_it"] = self.loop.iterations
        st["thread_index"] = baton.S.me().index
        self.running += 1
        self.h.rec("fn_begin", cid)
        try:
            if CV.get() != cid:
                self.v("contextvar", f"call {cid}: the caller's context variable is not visible in the worker thread ({CV.get()!r})")
            for k, step in enumerate(st["plan"]):
                self.limit_check("in fn")
                baton.S.yield_point("fn")
                if step == "gate":
                    continue
                if step == "nap":
                    self.nap(st["naps"][k % len(st["naps"])])
                elif step == "check":
                    expect = self.effective(st)
                    try:
                        from_thread.check_cancelled()
                        raised = False
                    except get_cancelled_exc_class_thread():
                        raised = True
                    self.h.rec("check", cid, raised)
                    if raised != expect:
                        self.v("check_cancelled", f"call {cid} ({st['shape']}, abandon={st['abandon']}): "
                                                  f"from_thread.check_cancelled() {'raised' if raised else 'did not raise'} while the "
                                                  f"host's scope chain is {'effectively cancelled' if expect else 'not cancelled'}",
                               sig="C14.check_cancelled:" + st["shape"])
                    elif expect:
                        self.bump("check_cancelled_reported")
                elif step in ("cb_lock", "cb_sleep", "cb_fail"):
                    self.callback(st, step)
                elif step == "cb_sync":
                    tid = threading.get_ident()
                    st["in_callback"] = True
                    obj = CbErr("returned, not raised", cid) if (cid[0] + cid[1]) % 2 else None
                    try:
                        r = from_thread.run_sync(lambda: obj if obj is not None else ("sync", cid, threading.get_ident()))
                    except CbErr as e:
                        r = ("raised", e)
                    st["in_callback"] = False
                    if obj is not None:
                        if r is not obj:
                            self.v("callback_value", f"call {cid}: from_thread.run_sync returned/raised {r!r} instead of returning "
                                                     f"the exception instance the function returned")
                        else:
                            self.bump("callback_sync_ok")
                    elif r[:2] != ("sync", cid) or r[2] == tid:
                        self.v("callback_value", f"call {cid}: from_thread.run_sync returned {r!r}")
                    else:
                        self.bump("callback_sync_ok")
                elif step in ("raise", "raise_sai", "raise_base"):
                    exc = (FalsyFnErr(cid) if (cid[0] + cid[1]) % 3 == 0 else FnErr(cid)) if step == "raise" else StopAsyncIteration(cid) if step == "raise_sai" else FnBaseErr(cid)
                    st["raised"] = exc
                    raise exc
            # what the function returns is data, whatever its type: a tuple, None, or an exception *instance*
            kind = st.get("ret", "tuple")
            val = ("ret", cid) if kind == "tuple" else None if kind == "none" else FnErr("returned, not raised", cid)
            st["returned"] = val
            st["has_returned"] = True
            return val
        finally:
            self.running -= 1
            st["finished"] = True
            self.h.rec("fn_end", cid)

    def callback(self, st, step):
        cid = st["cid"]
        was = self.effective(st)
        it0 = self.loop.iterations
        st["in_callback"] = True
        try:
            r = from_thread.run(self.in_loop, step, cid)
        except CbErr as e:
            if step != "cb_fail" or e.args != (cid,):
                self.v("callback_value", f"call {cid}: from_thread.run raised {e!r}")
            else:
                self.bump("callback_exception_ok")
        except (concurrent.futures.CancelledError, asyncio.CancelledError):
            if not (was or self.effective(st) or st.get("cancelled_seen")):
                self.v("callback_cancelled", f"call {cid}: from_thread.run was cancelled although the host's scope is not cancelled")
            else:
                self.bump("callback_cancelled_with_host")
        else:
            want_exc = step == "cb_lock" and (cid[0] + cid[1]) % 2 == 0
            good = (isinstance(r, CbErr) and r.args == ("returned, not raised", step, cid)) if want_exc else r == ("cb", step, cid)
            if step == "cb_fail" or not good:
                self.v("callback_value", f"call {cid}: from_thread.run({step}) returned {r!r}")
            else:
                self.bump("callback_ok")
        finally:
            st["in_callback"] = False

    async def in_loop(self, step, cid):
        if step == "cb_lock":
            async with self.lock:
                pass
        elif step == "cb_sleep":
            await sleep(0.125)
        elif step == "cb_fail":
            await checkpoint()
            raise CbErr(cid)
        if step == "cb_lock" and (cid[0] + cid[1]) % 2 == 0:
            return CbErr("returned, not raised", step, cid)      # an exception instance is a value like any other
        return ("cb", step, cid)

    def limit_check(self, where):
        lim = self.limiter
        tot = lim.total_tokens
        active = sum(1 for s in self.calls if s.get("started") and not s.get("finished") and not s.get("released"))
        if active > tot:
            self.v("limit", f"{where}: {active} non-abandoned calls are running with a limiter of {tot}")
        if lim.borrowed_tokens > tot:
            self.v("limit", f"{where}: borrowed_tokens={lim.borrowed_tokens} exceeds total_tokens={tot}")

    # -- loop side --------------------------------------------------------------------------------------
    async def caller(self, ci, calls):
        Cancelled = get_cancelled_exc_class()
        loop = self.loop
        for k, spec in enumerate(calls):
            await sleep(spec["pre"])
            cid = (ci, k)
            st = dict(spec, cid=cid)
            self.calls.append(st)
            CV.set(cid)
            shape = spec["shape"]
            outer = CancelScope()
            inner = CancelScope(shield=shape != "plain")
            target = outer if shape in ("plain", "shield_inner") else inner
            st["scope"] = target

            def do_cancel(st=st, target=target):
                if st.get("released"):
                    return
                st["cancel_it"] = loop.iterations
                st["cancelled_seen"] = True
                st["running_at_cancel"] = st.get("started") and not st.get("finished")
                self.h.rec("cancel", st["cid"])
                lim = self.limiter
                if (not st.get("started") and st["shape"] != "shield_inner" and lim.borrowed_tokens >= lim.total_tokens
                        and loop.iterations - st["call_it"] >= 2 and lim.statistics().tasks_waiting > 0):
                    # the call is queued for a limiter token (saturated limiter, past run_sync's first checkpoint):
                    # waiting for a token is an ordinary cancellable wait
                    st["queued_cancel_it"] = loop.iterations
                    self.faults["cancel_while_queued_for_token"] += 1
                target.cancel()
                if st["running_at_cancel"]:
                    self.faults["cancel_while_fn_runs"] += 1
                    self.nontrivial = True

            outcome = None
            with outer:
                with (inner if shape != "plain" else _null()):
                    if spec["cancel_after"] is not None:
                        loop.call_later(spec["cancel_after"], do_cancel)
                    self.h.rec("call", cid, spec["abandon"], shape)
                    st["call_it"] = loop.iterations
                    try:
                        r = await to_thread.run_sync(self.fn, st, limiter=self.limiter if self.limiter_explicit else None,
                                                     abandon_on_cancel=spec["abandon"])
                        outcome = ("ok", r)
                    except (FnErr, StopAsyncIteration, FnBaseErr) as e:
                        outcome = ("raised", e)
                    except RuntimeError as e:
                        outcome = ("raised", e)
                    except Cancelled:
                        outcome = ("cancelled", None)
                        st["released"] = True
                        self.judge(st, outcome)
                        raise
                    finally:
                        st["released"] = True
                    self.judge(st, outcome)
                    # a pending cancellation must be delivered at the next checkpoint (and only then)
                    eff = self.effective(st)
                    try:
                        await checkpoint()
                        hit = False
                    except Cancelled:
                        hit = True
                        if not eff and not self.effective(st):
                            self.v("spurious_cancel", f"call {cid}: checkpoint after the call raised a cancellation although the scope is not cancelled")
                        raise
                    finally:
                        if eff and not hit:
                            self.v("pending_cancel_lost", f"call {cid} ({shape}): the caller's scope was cancelled while the thread "
                                                          f"function ran, but the next checkpoint did not raise")
                        elif eff:
                            self.bump("pending_cancel_delivered_after_call")

    def judge(self, st, outcome):
        cid = st["cid"]
        self.h.rec("result", cid, outcome[0])
        kind, val = outcome
        lat = None
        if "queued_cancel_it" in st:
            q = st["queued_cancel_it"]
            if kind == "cancelled" and not st.get("started"):
                if self.loop.iterations - q > RELEASE_LAT:
                    self.v("queued_cancel", f"call {cid}: cancelled while queued for a limiter token, but run_sync raised only "
                                            f"{self.loop.iterations - q} loop cycles later")
                else:
                    self.bump("cancelled_while_queued_for_token")
            elif st.get("started") and st.get("start_it", 0) - q > RELEASE_LAT:
                self.v("queued_cancel", f"call {cid}: the caller's scope was cancelled while the call was queued for a limiter "
                                        f"token; it stayed queued and its function was started {st['start_it'] - q} loop cycles "
                                        f"later instead of the call being interrupted")
        if kind == "cancelled":
            if not (st.get("cancelled_seen")):
                self.v("spurious_cancel", f"call {cid}: run_sync raised a cancellation but its scope was never cancelled")
            if st["shape"] == "shield_inner":
                self.v("shield", f"call {cid}: run_sync inside a shielded scope was interrupted by the cancellation of an outer scope")
            if not st["abandon"]:
                if st.get("started"):
                    self.v("not_abandoned", f"call {cid} (abandon_on_cancel=False): the caller was released by a cancellation although "
                                            f"the thread function had started (finished={st.get('finished', False)})")
                else:
                    self.bump("cancelled_before_start")
            else:
                if st.get("running_at_cancel") and "cancel_it" in st:
                    lat = self.loop.iterations - st["cancel_it"]
                    if lat > RELEASE_LAT:
                        self.v("abandon_latency", f"call {cid} (abandon_on_cancel=True): the caller was released {lat} loop cycles "
                                                  f"after its scope was cancelled")
                    else:
                        self.bump("abandoned_while_running")
        elif kind == "ok":
            if not st.get("has_returned") or val is not st.get("returned"):
                self.v("result", f"call {cid}: run_sync returned {val!r}, the function returned {st.get('returned')!r}")
            else:
                self.bump("value_returned")
        else:
            if val is not st.get("raised"):
                self.v("result", f"call {cid}: run_sync raised {val!r}, the function raised {st.get('raised')!r}"
                                 + (f" and returned {st.get('returned')!r}" if st.get("has_returned") else ""))
            else:
                self.bump("exception_propagated")
        if kind != "cancelled" and not st["abandon"] and st.get("running_at_cancel"):
            self.bump("result_delivered_despite_cancel")
        self.limit_check("after call")

    def diagnose_spin(self):
        """Which tasks are spinning in checkpoint_if_cancelled, and is their cancel scope one the host already left?"""
        import anyio._backends._asyncio as A
        out = []
        for t in asyncio.all_tasks(self.loop):
            c = t.get_coro()
            names = []
            while c is not None and len(names) < 16:
                code = getattr(c, "cr_code", None) or getattr(c, "gi_code", None)
                names.append(getattr(code, "co_name", "?"))
                c = getattr(c, "cr_await", None) or getattr(c, "gi_yieldfrom", None)
            if "checkpoint_if_cancelled" in names:
                st = A._task_states.get(t)
                sc = st.cancel_scope if st else None
                out.append({"wrapper": "task_wrapper" in names, "scope_active": bool(sc is not None and sc._active)})
        self.spinning = out
        self.orphans = [s["cid"] for s in self.calls if s["abandon"] and s.get("released") and s.get("in_callback")]

    async def main(self):
        self.h.loop = self.loop = self.sim.loop
        self.loop.on_itercap.append(self.diagnose_spin)
        c = self.case
        self.limiter_explicit = c["total"] != "default"
        self.limiter = CapacityLimiter(c["total"]) if self.limiter_explicit else to_thread.current_default_thread_limiter()
        self.lock = Lock()
        self.calls = []
        self.running = 0
        async with create_task_group() as tg:
            for ci, calls in enumerate(c["callers"]):
                tg.start_soon(self.caller, ci, calls, name=f"caller{ci}")
        if self.limiter.borrowed_tokens:
            self.v("token_leak", f"{self.limiter.borrowed_tokens} limiter tokens are still borrowed after every call returned")
        self.threads = len({s.get("thread_index") for s in self.calls if s.get("started")})
        if any(r.done and r.name.startswith("worker") for r in baton.S.order):
            self.bump("idle_worker_pruned_while_loop_runs")

    def execute(self):
        case = self.case
        self.sim = sim = SimRun(case["sched_seed"], LoopConfig.from_json(case["loop"]), loop_cls=BatonLoop)
        self.faults = sim.faults
        sched = baton.begin(random.Random(f"baton:{case['sched_seed']}"), sim.faults, "loop", preempt=case.get("preempt", 0), suppress=case.get("suppress", ()))
        sched.on_switch = lambda who, where, nxt: self.h.rec("preempted", who, where, "->", nxt)
        snap = {}

        def snapshot():
            snap["unfinished"] = [dict(cid=s["cid"], abandon=s["abandon"], released=bool(s.get("released")),
                                       in_callback=bool(s.get("in_callback")))
                                  for s in getattr(self, "calls", []) if s.get("started") and not s.get("finished")]
        sched.on_deadlock.append(snapshot)
        aborted = False
        try:
            try:
                sim.run(self.main)
                self.loop_done = True
                if sim.outcome == "ok":
                    baton.finish(wait=True)
            except BatonAbort:
                aborted = True
        finally:
            baton.finish(wait=False)
        if sched.deadlock:
            unfinished = snap.get("unfinished", [])
            stuck = [s["cid"] for s in unfinished]
            f8 = (sim.outcome == "ok" and "future.result" in sched.deadlock and unfinished
                  and all(s["abandon"] and s["released"] and s["in_callback"] for s in unfinished))
            self.v("stuck", f"deadlock: {sched.deadlock}; unfinished thread functions: {stuck}",
                   sig="C14.stuck:" + ("abandoned-thread-callback-after-loop-finished" if f8 else "deadlock"))
        elif sim.outcome == "deadlock":
            self.v("stuck", f"would block forever: {sim.error}")
        elif sim.outcome == "itercap":
            orphan = getattr(self, "orphans", [])
            spin = getattr(self, "spinning", [])
            detached = bool(spin) and all(x["wrapper"] and not x["scope_active"] for x in spin)
            self.v("stuck", f"busy loop: {sim.error}; tasks spinning in checkpoint_if_cancelled: {spin}; from_thread.run call-backs "
                            f"in flight from abandoned thread functions: {orphan}",
                   sig="C14.stuck:busy-loop" + (":callback-from-abandoned-thread" if orphan and detached else ""))
        elif sim.outcome == "exc":
            import traceback
            self.v("error", "unexpected exception: " + "".join(traceback.format_exception(sim.error))[-1500:])
        loop = sim.loop
        import hashlib
        dig = hashlib.sha1((self.h.digest() + repr(sched.log)).encode()).hexdigest()
        return {"violations": self.viol, "digest": dig, "faults": dict(self.faults), "nontrivial": self.nontrivial,
                "vtime": loop._vnow if loop else 0.0, "iters": loop.iterations if loop else 0, "steps": self.h.seq + len(sched.log),
                "probes": self.probes, "cfg": [("eager" if case["loop"]["eager"] else "stock") + ":limiter=" + str(case["total"])],
                "history_text": self.h.text(120), "decisions": sched.decisions,
                "switch_ordinals": list(sched.switch_ords)}


class _null:
    def __enter__(self):
        return None

    def __exit__(self, *a):
        return False


def get_cancelled_exc_class_thread():
    return asyncio.CancelledError


def shrinks(case):
    if case.get("preempt"):
        c = copy.deepcopy(case)
        c["preempt"] = 0
        yield c
        # schedule minimisation: drop, one at a time, the line pre-emptions that switched threads
        try:
            ords = ToThreadRun(copy.deepcopy(case)).execute().get("switch_ordinals", [])
        except Exception:
            ords = []
        have = set(case.get("suppress", ()))
        ords = [o for o in ords if o not in have]
        size = len(ords)
        while size >= 1:                      # ddmin-style: big chunks first, single switches last
            for i in range(0, len(ords), size):
                c = copy.deepcopy(case)
                c["suppress"] = sorted(have | set(ords[i:i + size]))
                yield c
            size //= 2
    for i in range(len(case["callers"])):
        if len(case["callers"]) > 1:
            c = copy.deepcopy(case)
            del c["callers"][i]
            yield c
    for i, calls in enumerate(case["callers"]):
        for j in range(len(calls)):
            if len(calls) > 1:
                c = copy.deepcopy(case)
                del c["callers"][i][j]
                yield c
    for i, calls in enumerate(case["callers"]):
        for j, spec in enumerate(calls):
            for k in range(len(spec["plan"])):
                c = copy.deepcopy(case)
                del c["callers"][i][j]["plan"][k]
                yield c
            if spec["pre"]:
                c = copy.deepcopy(case)
                c["callers"][i][j]["pre"] = 0
                yield c
            if spec["shape"] != "plain":
                c = copy.deepcopy(case)
                c["callers"][i][j]["shape"] = "plain"
                yield c
    for key, val in (("eager", False), ("p_late", 0)):
        if case["loop"].get(key):
            c = copy.deepcopy(case)
            c["loop"][key] = val
            yield c


class ToThreadCheck:
    shrink_runs = 3000      # races need many re-executions: program shrinking, derived schedule seeds, pre-emption ddmin
    shrink_s = 150
    prop = "C14"
    engine = "threads-to_thread"
    level = "exploration"
    chunk = 16
    recheck = 24
    hard_timeout = 300
    components = {
        "real": ["anyio to_thread.run_sync, WorkerThread, CapacityLimiter, from_thread.run / run_sync / check_cancelled, "
                 "cancel scopes (asyncio backend)", "real OS threads (one per worker)", "concurrent.futures.Future (data path)"],
        "stub": ["thread scheduling: baton passing - exactly one managed thread runs, a seeded scheduler picks the next at every "
                 "yield point (loop iteration, call_soon_threadsafe, queue get/put, future result, gates inside the thread functions)",
                 "blocking in queue.Queue.get and concurrent.futures.Future.result/exception (predicate parks)",
                 "event loop and clock (BatonLoop: virtual time, advances only when every other thread is parked)"],
    }
    assumptions = [
        "asyncio backend only; uvloop not simulated; pre-emption happens at yield points, not inside C code of queue/threading",
        "the default thread limiter (40 tokens) is exercised as-is; explicit limiters have 1-3 tokens",
        "a from_thread call-back may legitimately be cancelled when the host task's scope is effectively cancelled",
    ]
    fault_kinds = ["thread_preempt", "thread_nap", "cancel_while_fn_runs", "threadsafe_call", "queue_put", "timer_tie", "late_wakeup"]
    budgets = {"quick": (40000, 100), "thorough": (1_500_000, 1500)}
    rule_text = ("cases = 1-4/6 caller tasks x 1-2 run_sync calls each: limiter 1/2/3 tokens or the default limiter, abandon_on_cancel "
                 "on/off, scope shape (plain / shield inside a cancelled scope / shielded scope itself cancelled), a cancel timer at a "
                 "seeded virtual time, thread-function plans of 0-4/5 steps (gate, nap, check_cancelled, from_thread.run with "
                 "lock/sleep/failure, from_thread.run_sync, raise); distinct = SHA1 of the event history plus the scheduler's decision "
                 "log; non-trivial = a scope was cancelled while its thread function was running")

    def bounds(self, tier):
        big = tier == "thorough"
        return {"caller_tasks": [1, 6 if big else 4], "calls_per_caller": [1, 2], "plan_steps": [0, 5 if big else 4],
                "limiter_tokens": [1, 2, 3, "default(40)"], "iteration_cap": 30000}

    def gen_case(self, seed, tier):
        return gen_case(seed, tier)

    def run_case(self, case):
        return ToThreadRun(case).execute()

    def shrinks(self, case):
        return shrinks(case)
