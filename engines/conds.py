"""Engine SYNC/conditions: Event and Condition (C11).

Tasks run seeded programs around one Condition (wait in a cancellable scope, notify(n), notify_all,
misuse by non-holders and by earlier holders) and a few Events (wait / set); cancellations are
injected by siblings and by external loop callbacks before, in the same cycle as, and after the
notification that selects a waiter.

Oracle: a token automaton.  notify(n) hands tokens to the first n waiters in waiting order; a
waiter whose cancellation is pending may be skipped (it already left) or selected, in which case the
token is passed on to the head of the queue when it unwinds (or dies if nobody waits).  The set of
automaton states compatible with the observations so far is tracked; an observation compatible with
none is a violation.
"""
from __future__ import annotations

import asyncio
import copy
import random

from simkit.harness import History, LoopConfig, SimRun, anyio

from anyio import CancelScope, Condition, Event, WouldBlock, create_task_group, get_cancelled_exc_class, sleep
from anyio.lowlevel import checkpoint

DUR = [0, 0, 0.125, 0.125, 0.25, 0.5]
MAX_WORLDS = 96
EVENT_LAT = 3


class CWorld:
    """queue: tuple of (who, cp, token); ghosts: waiters that were skipped (treated as having left at
    their cancel request) but have not unwound yet; passed: waiters that already passed their
    notification on but have not come out of wait() yet."""

    __slots__ = ("queue", "ghosts", "passed")

    def __init__(self, queue=(), ghosts=frozenset(), passed=frozenset()):
        self.queue = queue
        self.ghosts = ghosts
        self.passed = passed

    def key(self):
        return (self.queue, self.ghosts, self.passed)

    def summary(self):
        q = ",".join(f"{w}{'~' if cp else ''}{'*' if t else ''}" for w, cp, t in self.queue)
        return f"<queue=[{q}] skipped={sorted(self.ghosts)} passed_on={sorted(self.passed)}>"


def hand_out(w, n, stats):
    """Give up to n tokens (n=None: to everyone) to untokened entries in waiting order."""
    out = []
    stack = [(w, n, 0)]
    while stack:
        w, left, start = stack.pop()
        idx = None
        if left is None or left > 0:
            for i in range(start, len(w.queue)):
                if not w.queue[i][2]:
                    idx = i
                    break
        if idx is None:
            out.append(w)
            continue
        who, cp, _ = w.queue[idx]
        q = w.queue
        taken = CWorld(q[:idx] + ((who, cp, True),) + q[idx + 1:], w.ghosts, w.passed)
        stack.append((taken, None if left is None else left - 1, idx + 1))
        if cp:
            skipped = CWorld(q[:idx] + q[idx + 1:], w.ghosts | {who}, w.passed)
            stack.append((skipped, left, idx))
            stats["world_branch"] += 1
    return out


def settle(worlds, stats):
    """Close the world set under 'a notified waiter whose cancellation is pending has meanwhile
    passed its notification on' (it may do so at any instant before it comes out of wait())."""
    seen = {}
    todo = list(worlds)
    while todo:
        w = todo.pop()
        k = w.key()
        if k in seen:
            continue
        seen[k] = w
        for i, (who, cp, tok) in enumerate(w.queue):
            if cp and tok:
                w2 = CWorld(w.queue[:i] + w.queue[i + 1:], w.ghosts, w.passed | {who})
                todo.extend(hand_out(w2, 1, stats))
    return list(seen.values())


class CondModel:
    def __init__(self, faults):
        self.worlds = [CWorld()]
        self.faults = faults
        self.inconclusive = False
        self.pending = {}

    def _set(self, ws):
        self.worlds = settle(ws, self.faults)
        if len(self.worlds) > MAX_WORLDS:
            self.inconclusive = True

    def summary(self):
        return " | ".join(w.summary() for w in self.worlds[:6])

    def wait_begin(self, who, cp):
        self.pending[who] = cp
        self._set([CWorld(w.queue + ((who, cp, False),), w.ghosts, w.passed) for w in self.worlds])

    def cancel_request(self, who):
        if who not in self.pending:
            return None
        self.pending[who] = True
        st = None
        nw = []
        for w in self.worlds:
            q = []
            for e in w.queue:
                if e[0] == who:
                    if e[2]:
                        st = st or "notified"
                    else:
                        st = "waiting"
                    q.append((who, True, e[2]))
                else:
                    q.append(e)
            nw.append(CWorld(tuple(q), w.ghosts, w.passed))
        self._set(nw)
        return st

    def notify(self, n):
        nw = []
        for w in self.worlds:
            nw.extend(hand_out(w, n, self.faults))
        self._set(nw)

    def wait_end(self, who, ok):
        self.pending.pop(who, None)
        nw = []
        for w in self.worlds:
            ent = None
            for i, e in enumerate(w.queue):
                if e[0] == who:
                    ent = (i, e)
                    break
            if ok:
                if ent is None or not ent[1][2]:
                    continue
                i = ent[0]
                nw.append(CWorld(w.queue[:i] + w.queue[i + 1:], w.ghosts, w.passed))
            else:
                if ent is None:
                    nw.append(CWorld(w.queue, w.ghosts - {who}, w.passed - {who}))
                    continue
                i, e = ent
                w2 = CWorld(w.queue[:i] + w.queue[i + 1:], w.ghosts, w.passed)
                if e[2]:
                    nw.extend(hand_out(w2, 1, self.faults))     # pass the notification on
                else:
                    nw.append(w2)
        if not nw:
            return f"wait() returned normally to {who!r}, which no notification could have selected"
        self._set(nw)
        return None

    def observe_waiting(self, real):
        nw = []
        for w in settle(self.worlds, self.faults):
            lo = sum(1 for e in w.queue if not e[2] and not e[1])
            hi = sum(1 for e in w.queue if not e[2]) + len(w.ghosts)
            if lo <= real <= hi:
                nw.append(w)
        if not nw:
            return False
        self.worlds = nw
        return True


# ------------------------------------------------------------------------------------------
def gen_case(seed, tier, prop="C11"):
    rng = random.Random(seed)
    big = tier == "thorough"
    nw = rng.randint(1, 7 if big else 5)
    nn = rng.randint(1, 3)
    nev = rng.randint(0, 2)
    nsid = [0]

    def new_sid():
        nsid[0] += 1
        return nsid[0] - 1

    tasks = []
    for _ in range(nw):
        prog = []
        for _ in range(rng.randint(1, 3)):
            r = rng.random()
            if r < 0.7:
                inner = []
                if rng.random() < 0.3:
                    inner.append(["sleep", rng.choice(DUR)])
                inner.append(["wait", new_sid()])
                if rng.random() < 0.25:
                    inner.append(["wait", new_sid()])
                if rng.random() < 0.2:
                    inner.append(["notify", 1])
                prog.append(["with", inner])
            elif r < 0.8 and nev:
                prog.append(["ewait", rng.randrange(nev), new_sid()])
            elif r < 0.9:
                prog.append(["sleep", rng.choice(DUR)])
            else:
                prog.append([rng.choice(["bad_notify", "bad_notify_all", "bad_wait"])])
        tasks.append(prog)
    for _ in range(nn):
        prog = []
        for _ in range(rng.randint(1, 5 if big else 4)):
            r = rng.random()
            if r < 0.6:
                inner = []
                for _ in range(rng.randint(1, 3)):
                    q = rng.random()
                    if q < 0.45:
                        inner.append(["notify", rng.choice([1, 1, 2, 3])])
                    elif q < 0.6:
                        inner.append(["notify_all"])
                    elif q < 0.8 and nsid[0]:
                        inner.append(["cancel", rng.randrange(nsid[0])])
                    elif q < 0.9:
                        inner.append(["sleep", rng.choice(DUR)])
                    else:
                        inner.append(["cp"])
                prog.append(["with", inner])
            elif r < 0.75:
                prog.append(["sleep", rng.choice(DUR)])
            elif r < 0.85 and nsid[0]:
                prog.append(["cancel", rng.randrange(nsid[0])])
            elif r < 0.92 and nev:
                prog.append(["eset", rng.randrange(nev)])
            else:
                prog.append([rng.choice(["bad_notify", "bad_wait", "bad_notify_all"])])
        tasks.append(prog)
    for prog in tasks:
        for st in prog:
            if st[0] == "with" and rng.random() < 0.12:
                st[0] = "try_with"
    ext = []
    native = rng.random() < 0.3      # this case also cancels whole tasks natively (asyncio Task.cancel())
    for _ in range(rng.randint(0, 5)):
        t = rng.choice([0, 0.125, 0.125, 0.25, 0.25, 0.375, 0.5, 0.75, 1.0])
        if nev and rng.random() < 0.2:
            ext.append([t, "eset", rng.randrange(nev)])
        elif native and rng.random() < 0.4:
            ext.append([t, "ncancel", rng.randrange(nw)])
        elif nsid[0]:
            ext.append([t, "cancel", rng.randrange(nsid[0])])
    ext.sort(key=lambda e: e[0])
    loop = LoopConfig(eager=rng.random() < 0.3, cap=8000, p_late=rng.choice([0, 0, 0.2]),
                      p_stall=rng.choice([0, 0, 0.05])).to_json()
    return {"engine": "conds", "prop": "C11", "tasks": tasks, "ext": ext, "nev": nev, "loop": loop,
            "own_lock": rng.random() < 0.3, "sched_seed": rng.getrandbits(32), "outside": rng.random() < 0.2,
            "explicit": rng.random() < 0.3}


class CondRun:
    def __init__(self, case):
        self.case = case
        self.sim = SimRun(case["sched_seed"], LoopConfig.from_json(case["loop"]))
        self.faults = self.sim.faults
        self.h = History()
        self.viol = []
        self.probes = {}
        self.scopes = {}
        self.seg_task = {}
        self.cancelled = set()
        self.in_wait = {}        # tid -> 'T<tid>'
        self.in_ewait = {}       # tid -> (ev, begin_iter, cp)
        self.holder = None       # tid holding the condition's lock according to the harness
        self.ever_held = set()
        self.model = None
        self.nontrivial = False
        self.eset_at = {}        # ev -> (seq, iteration)
        self.task_obj = {}
        self.ncancelled = set()
        self.done = 0

    def v(self, rule, detail, sig=None):
        if len(self.viol) < 10:
            rid = "C11." + rule
            lp = self.sim.loop
            self.viol.append({"rule": rid, "sig": sig or rid,
                              "detail": f"{detail} (seq={self.h.seq}, iteration={lp.iterations if lp else '?'})"})

    def bump(self, k):
        self.probes[k] = self.probes.get(k, 0) + 1

    def observe(self, where):
        m = self.model
        if m.inconclusive:
            return
        st = self.cond.statistics()
        before = m.summary()
        if not m.observe_waiting(st.tasks_waiting):
            self.v("waiting", f"{where}: statistics().tasks_waiting={st.tasks_waiting} cannot be explained by the "
                              f"notifications issued so far (a notification was lost, duplicated or a phantom waiter "
                              f"exists); automaton: {before}")
            m.inconclusive = True
        ls = st.lock_statistics
        if (self.holder is not None) != ls.locked and not self.handing_over():
            self.v("lock", f"{where}: lock reported locked={ls.locked} but the harness holder is {self.holder}")

    def handing_over(self):
        # between a release and the next owner's resumption the lock is owned by a task that has not
        # recorded its acquisition yet
        return True

    def make_prims(self):
        case = self.case
        return (Condition(anyio.Lock()) if case["own_lock"] else Condition()), [Event() for _ in range(case["nev"])]

    async def main(self):
        self.h.loop = loop = self.sim.loop
        case = self.case
        if self.pre is not None:
            # created before the event loop existed (LockAdapter / EventAdapter objects)
            self.cond, self.events = self.pre
            self.probes["primitives_created_outside_the_loop"] = 1
        else:
            self.cond, self.events = self.make_prims()
        self.model = CondModel(self.faults)
        for t, what, arg in case["ext"]:
            if what == "cancel":
                loop.call_external_at(t, self.do_cancel, "ext", arg)
            elif what == "ncancel":
                loop.call_external_at(t, self.do_ncancel, "ext", arg)
            else:
                loop.call_external_at(t, self.do_eset, "ext", arg)
        self.ntasks = len(case["tasks"])
        async with create_task_group() as tg:
            for tid, prog in enumerate(case["tasks"]):
                tg.start_soon(self.task, tid, prog, name=f"t{tid}")
            tg.start_soon(self.janitor, name="janitor")
        self.observe("end")
        st = self.cond.statistics()
        if st.tasks_waiting or st.lock_statistics.locked or st.lock_statistics.tasks_waiting:
            self.v("endstate", f"after all tasks finished: {st}")
        for ev in self.events:
            if ev.statistics().tasks_waiting:
                self.v("endstate", "event still reports waiting tasks after all tasks finished")

    async def janitor(self):
        # termination discipline: keep notifying / setting / (late) cancelling until every task is done
        rounds = 0
        while self.done < self.ntasks:
            await sleep(2.0)
            rounds += 1
            for i in range(len(self.events)):
                self.do_eset("janitor", i)
            if rounds >= 3:
                for sid in sorted(self.scopes):
                    self.do_cancel("janitor", sid)
            async with self.cond:
                self.holder = "J"
                self.observe("janitor before notify_all")
                self.h.rec("notify_all", "J")
                self.cond.notify_all()
                self.model.notify(None)
                self.observe("janitor after notify_all")
                self.holder = None

    def do_cancel(self, by, sid):
        sc = self.scopes.get(sid)
        if sc is None or sid in self.cancelled:
            return
        self.observe("before cancel")
        tid = self.seg_task[sid]
        self.cancelled.add(sid)
        self.h.rec("cancel", by, sid, tid)
        sc.cancel()
        who = self.in_wait.get(tid)
        if who is not None:
            st = self.model.cancel_request(who)
            if st == "waiting":
                self.faults["cancel_waiter"] += 1
                self.nontrivial = True
            elif st == "notified":
                self.faults["cancel_notified_waiter"] += 1
                self.nontrivial = True
        ew = self.in_ewait.get(tid)
        if ew is not None:
            ew[2] = True
            self.faults["cancel_event_waiter"] += 1
        self.observe("after cancel")

    def do_ncancel(self, by, tid):
        """Native asyncio cancellation of a whole waiter task.  Not generated for a waiter that may already have been
        notified: its wait() is then re-acquiring the lock, which no shield can protect from a native cancellation
        (outside the statement)."""
        t = self.task_obj.get(tid)
        if t is None or t.done() or tid in self.ncancelled:
            return
        who = self.in_wait.get(tid)
        if who is not None and any(e[0] == who and e[2] for w in self.model.worlds for e in w.queue):
            return
        if who is not None and (self.model.pending.get(who) or any(who in w.passed for w in self.model.worlds)):
            return          # a scope cancellation is already pending: wait() may be in its shielded re-acquisition too
        self.observe("before native cancel")
        self.ncancelled.add(tid)
        self.h.rec("native_cancel", by, tid)
        t.cancel()
        if who is not None:
            self.model.cancel_request(who)
            self.faults["native_cancel_waiter"] += 1
            self.nontrivial = True
        elif tid in self.in_ewait:
            self.in_ewait[tid][2] = True
            self.faults["native_cancel_event_waiter"] += 1
        else:
            self.faults["native_cancel_other"] += 1
        self.observe("after native cancel")

    def do_eset(self, by, i):
        ev = self.events[i]
        if i not in self.eset_at:
            self.h.rec("eset", by, i)
            self.eset_at[i] = (self.h.seq, self.sim.loop.iterations)
            waiting = ev.statistics().tasks_waiting
            if waiting:
                self.faults["set_with_waiters"] += 1
        ev.set()
        if not ev.is_set():
            self.v("event_unset", f"event {i} reports is_set()=False right after set()")

    async def task(self, tid, prog):
        self.task_obj[tid] = asyncio.current_task()
        try:
            for st in prog:
                op = st[0]
                if op == "sleep":
                    await sleep(st[1])
                elif op == "cp":
                    await checkpoint()
                elif op == "cancel":
                    self.do_cancel(tid, st[1])
                elif op == "eset":
                    self.do_eset(tid, st[1])
                elif op == "ewait":
                    await self.do_ewait(tid, st[1], st[2])
                elif op.startswith("bad_"):
                    await self.do_bad(tid, op)
                elif op == "with":
                    await self.do_with(tid, st[1])
                elif op == "try_with":
                    await self.do_try_with(tid, st[1])
        except asyncio.CancelledError:
            if tid not in self.ncancelled:       # a native cancellation ends this task only (see engines/permits.py)
                raise
        finally:
            self.done += 1

    async def do_with(self, tid, inner):
        cond = self.cond
        if self.case.get("explicit"):
            # the same critical section through acquire() / release() instead of `async with`
            await cond.acquire()
            try:
                await self.critical(tid, inner)
            finally:
                cond.release()
            return
        async with cond:
            await self.critical(tid, inner)

    async def do_try_with(self, tid, inner):
        """The critical section entered through acquire_nowait(): either it is refused with WouldBlock - and then nothing
        about the condition may have changed, in particular not who owns it - or the section runs as usual."""
        cond = self.cond
        self.observe("before acquire_nowait")
        holder = self.holder
        try:
            cond.acquire_nowait()
        except WouldBlock:
            self.h.rec("acquire_nowait_refused", tid)
            self.bump("acquire_nowait_wouldblock")
            self.faults["acquire_nowait_refused_while_held" if holder is not None else "acquire_nowait_refused"] += 1
            self.observe("after refused acquire_nowait")
            return
        if holder is not None:
            self.v("lock", f"acquire_nowait() by task {tid} succeeded while task {holder} is inside its critical section")
        try:
            await self.critical(tid, inner)
        finally:
            cond.release()

    async def critical(self, tid, inner):
        cond = self.cond
        if True:
            self.holder = tid
            self.ever_held.add(tid)
            self.h.rec("locked", tid)
            try:
                for st in inner:
                    op = st[0]
                    if op == "sleep":
                        await sleep(st[1])
                    elif op == "cp":
                        await checkpoint()
                    elif op == "cancel":
                        self.do_cancel(tid, st[1])
                    elif op == "notify":
                        self.observe("before notify")
                        self.h.rec("notify", tid, st[1])
                        cond.notify(st[1])
                        self.model.notify(st[1])
                        self.faults["notify"] += 1
                        self.observe("after notify")
                    elif op == "notify_all":
                        self.observe("before notify_all")
                        self.h.rec("notify_all", tid)
                        cond.notify_all()
                        self.model.notify(None)
                        self.faults["notify_all"] += 1
                        self.observe("after notify_all")
                    elif op == "wait":
                        await self.do_wait(tid, st[1])
            finally:
                self.holder = None
                self.h.rec("unlock", tid)

    async def do_wait(self, tid, sid):
        cond = self.cond
        who = "T%d" % tid
        sc = CancelScope()
        self.scopes[sid] = sc
        self.seg_task[sid] = tid
        me = asyncio.current_task()
        try:
            with sc:
                self.observe("before wait")
                cp = sid in self.cancelled
                self.in_wait[tid] = who
                self.h.rec("wait_begin", tid, cp)
                self.model.wait_begin(who, cp)
                self.holder = None
                try:
                    await cond.wait()
                except get_cancelled_exc_class():
                    del self.in_wait[tid]
                    self.holder = tid
                    self.h.rec("wait_end", tid, "cancelled")
                    self.model.wait_end(who, False)
                    self.check_owner(tid, me, "cancelled wait()")
                    self.observe("after cancelled wait")
                    raise
                del self.in_wait[tid]
                self.holder = tid
                self.h.rec("wait_end", tid, "ok")
                err = self.model.wait_end(who, True)
                if err:
                    self.v("spurious", err + "; automaton: " + self.model.summary())
                    self.model.inconclusive = True
                else:
                    self.bump("wait_returned_notified")
                self.check_owner(tid, me, "wait()")
                self.observe("after wait")
        finally:
            self.scopes.pop(sid, None)

    def check_owner(self, tid, me, what):
        ls = self.cond.statistics().lock_statistics
        if not ls.locked or ls.owner is None or ls.owner.id != id(me):
            self.v("lock_not_held", f"task {tid} came out of {what} without holding the condition's lock "
                                    f"(locked={ls.locked}, owner={ls.owner})")

    async def do_bad(self, tid, op):
        """Misuse: the calling task does not hold the lock now (it may have held it earlier)."""
        cond = self.cond
        self.observe("before misuse")
        earlier = tid in self.ever_held
        try:
            if op == "bad_notify":
                cond.notify()
            elif op == "bad_notify_all":
                cond.notify_all()
            else:
                await cond.wait()
        except RuntimeError:
            self.h.rec("refused", tid, op)
            self.bump("misuse_refused" + ("_earlier_holder" if earlier else ""))
        else:
            self.v("misuse", f"task {tid} called {op[4:]}() without holding the lock and got no RuntimeError "
                             f"(held it earlier: {earlier})", sig="C11.misuse:" + ("stale-owner" if earlier else "never-owner"))
        self.observe("after misuse")

    async def do_ewait(self, tid, i, sid):
        ev = self.events[i]
        sc = CancelScope()
        self.scopes[sid] = sc
        self.seg_task[sid] = tid
        try:
            with sc:
                info = [i, self.sim.loop.iterations, sid in self.cancelled]
                self.in_ewait[tid] = info
                self.h.rec("ewait_begin", tid, i)
                try:
                    await ev.wait()
                except get_cancelled_exc_class():
                    del self.in_ewait[tid]
                    self.h.rec("ewait_end", tid, i, "cancelled")
                    raise
                del self.in_ewait[tid]
                self.h.rec("ewait_end", tid, i, "ok")
                at = self.eset_at.get(i)
                if at is None:
                    self.v("event_early", f"Event.wait() returned to task {tid} although set() was never called on event {i}")
                else:
                    self.bump("event_wait_released")
                    lat = self.sim.loop.iterations - max(at[1], info[1])
                    if lat > EVENT_LAT and not info[2]:
                        self.v("event_late", f"task {tid} was released {lat} loop cycles after event {i} was set")
                if not ev.is_set():
                    self.v("event_unset", f"event {i} is no longer set")
        finally:
            self.scopes.pop(sid, None)

    def execute(self):
        sim = self.sim
        self.pre = self.make_prims() if self.case.get("outside") else None
        if self.pre is not None and self.pre[1] and self.case["sched_seed"] % 2:
            # an event that is set while no event loop exists yet must be set for the tasks that wait on it later
            self.pre[1][0].set()
            self.eset_at[0] = (0, 0)
            if not self.pre[1][0].is_set():
                self.v("event_unset", "event 0 reports is_set()=False right after set() (outside the event loop)")
        sim.run(self.main)
        if sim.outcome == "deadlock":
            self.v("stuck", f"would block forever: {sim.error}; waiting={sorted(self.in_wait)} ewait={sorted(self.in_ewait)}")
        elif sim.outcome == "itercap":
            self.v("stuck", f"iteration cap: {sim.error}")
        elif sim.outcome == "exc":
            import traceback
            tb = "".join(traceback.format_exception(sim.error))[-1500:]
            self.v("error", f"unexpected exception out of legitimate API use: {sim.error!r}\n{tb}")
        loop = sim.loop
        return {"violations": self.viol, "digest": self.h.digest(), "faults": dict(self.faults),
                "nontrivial": self.nontrivial, "vtime": loop._vnow if loop else 0.0,
                "iters": loop.iterations if loop else 0, "steps": self.h.seq, "probes": self.probes,
                "cfg": ["eager" if self.case["loop"]["eager"] else "stock"], "history_text": self.h.text()}


def shrinks(case):
    tasks = case["tasks"]
    for i in range(len(tasks)):
        if len(tasks) > 1:
            c = copy.deepcopy(case)
            del c["tasks"][i]
            yield c
    for i in range(len(case["ext"])):
        c = copy.deepcopy(case)
        del c["ext"][i]
        yield c
    for i, prog in enumerate(tasks):
        for j in range(len(prog)):
            c = copy.deepcopy(case)
            del c["tasks"][i][j]
            yield c
    for i, prog in enumerate(tasks):
        for j, st in enumerate(prog):
            if st[0] == "with":
                for k in range(len(st[1])):
                    c = copy.deepcopy(case)
                    del c["tasks"][i][j][1][k]
                    yield c
            if st[0] == "sleep" and st[1]:
                c = copy.deepcopy(case)
                c["tasks"][i][j][1] = 0
                yield c
    for key, val in (("eager", False), ("p_late", 0), ("p_stall", 0)):
        if case["loop"].get(key):
            c = copy.deepcopy(case)
            c["loop"][key] = val
            yield c
    if case.get("own_lock"):
        c = copy.deepcopy(case)
        c["own_lock"] = False
        yield c


class CondCheck:
    prop = "C11"
    engine = "sync-conditions"
    level = "exploration"
    components = {
        "real": ["anyio Condition, Event, Lock (asyncio backend)", "anyio CancelScope/TaskGroup", "asyncio Task/Future"],
        "stub": ["event loop scheduling and clock (SimLoop: virtual time, seeded timer ties / late wake-ups / stalls / "
                 "external callback positions)", "set iteration order inside anyio (SimSet)"],
    }
    assumptions = [
        "asyncio backend only; uvloop not simulated",
        "token automaton: notify(n) selects the first n waiters in waiting order; a waiter with a pending cancellation "
        "may be skipped or selected, a selected one passes the token to the head of the queue when it unwinds",
        "Event release latency bound: %d loop cycles" % EVENT_LAT,
    ]
    fault_kinds = ["cancel_waiter", "cancel_notified_waiter", "cancel_event_waiter", "notify", "notify_all",
                   "set_with_waiters", "timer_tie", "late_wakeup", "stall", "external_cb", "world_branch"]
    budgets = {"quick": (300_000, 90), "thorough": (12_000_000, 1500)}
    rule_text = ("cases = seeded programs: 1-5/7 waiter tasks (async with cond: wait in a cancellable scope, optional "
                 "second wait / notify; Event.wait; misuse calls) + 1-3 notifier tasks (notify(n), notify_all, cancels, "
                 "Event.set, misuse) + external cancel/set callbacks at seeded times and ready-queue positions + a "
                 "janitor that keeps notifying until all tasks are done; distinct = SHA1 of the event history; "
                 "non-trivial = a cancel request landed on a task blocked in Condition.wait (before or after it was "
                 "notified)")

    def bounds(self, tier):
        big = tier == "thorough"
        return {"waiter_tasks": [1, 7 if big else 5], "notifier_tasks": [1, 3], "events": [0, 2],
                "external_actions": [0, 5], "notify_n": [1, 2, 3], "max_worlds": MAX_WORLDS}

    def gen_case(self, seed, tier):
        return gen_case(seed, tier)

    def run_case(self, case):
        return CondRun(case).execute()

    def shrinks(self, case):
        return shrinks(case)
