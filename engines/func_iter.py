"""Engine FUNC/itertools (C19).

(i) Agreement with the standard library is a property of the input domain, decided by differential
enumeration: every anyio.itertools function and anyio.functools.reduce, every element sequence over a
small alphabet up to a length bound, every small integer parameter (invalid ones included), sync and
async sources, callbacks that are the async twins of the stdlib callbacks.  The simulator is only the
execution vehicle here (async sources and callbacks suspend for seeded virtual durations).

(ii) tee() is a schedule property and is simulated: up to 3 consumer tasks (and tees of tees) with
seeded pacing over a source that suspends; every consumer must see the complete source sequence and the
source's __anext__ must be entered once per element (+1 for exhaustion), never concurrently.
"""
from __future__ import annotations

import functools
import itertools
import random

from simkit.harness import History, LoopConfig, SimRun, anyio

import anyio.functools as aft
import anyio.itertools as ait
from anyio import create_task_group, sleep

LIMIT = 14
ALPHA = [0, 1, 2]
INTS = [-1, 0, 1, 2, 3, None]
DUR = [0, 0, 0.125, 0.25]


def all_seqs(maxlen):
    out = [()]
    for n in range(1, maxlen + 1):
        out.extend(itertools.product(ALPHA, repeat=n))
    return out


def slist(it):
    out = []
    for x in it:
        out.append(x)
        if len(out) >= LIMIT:
            break
    return out


async def alist(it):
    out = []
    async for x in it:
        out.append(x)
        if len(out) >= LIMIT:
            break
    return out


def add(a, b):
    return a + b


def truthy(x):
    return x


def keyf(x):
    return x % 2


class Ctx:
    """Per-run helpers: async twins of callbacks and async sources that suspend for seeded durations."""

    def __init__(self, rng, mode):
        self.rng = rng
        self.mode = mode
        self.suspensions = 0

    async def pause(self):
        d = self.rng.choice(DUR)
        if d or self.rng.random() < 0.3:
            self.suspensions += 1
            await sleep(d)

    def wrap(self, f):
        async def g(*a):
            await self.pause()
            return f(*a)
        return g

    def src(self, seq):
        seq = list(seq)
        if self.mode == "sync":
            return seq
        if self.mode == "iter":
            return iter(seq)
        ctx = self

        async def gen():
            for x in seq:
                await ctx.pause()
                yield x
        if self.mode == "aiterable":
            class AI:
                def __aiter__(self_inner):
                    return gen()
            return AI()
        return gen()


def subcases(s):
    """(name, async_factory(ctx) -> async iterable | awaitable, sync_factory() -> iterable | value)"""
    s = tuple(s)
    C = []
    a = C.append
    a(("accumulate", lambda c: ait.accumulate(c.src(s)), lambda: itertools.accumulate(s)))
    a(("accumulate(f,initial)", lambda c: ait.accumulate(c.src(s), c.wrap(add), initial=5),
       lambda: itertools.accumulate(s, add, initial=5)))
    a(("accumulate(f)", lambda c: ait.accumulate(c.src(s), c.wrap(max)), lambda: itertools.accumulate(s, max)))
    for k in INTS:
        a((f"batched({k})", lambda c, k=k: ait.batched(c.src(s), k), lambda k=k: itertools.batched(s, k)))
        a((f"combinations({k})", lambda c, k=k: ait.combinations(c.src(s), k), lambda k=k: itertools.combinations(s, k)))
        a((f"combinations_with_replacement({k})", lambda c, k=k: ait.combinations_with_replacement(c.src(s), k),
           lambda k=k: itertools.combinations_with_replacement(s, k)))
        a((f"permutations({k})", lambda c, k=k: ait.permutations(c.src(s), k), lambda k=k: itertools.permutations(s, k)))
        a((f"islice(stop={k})", lambda c, k=k: ait.islice(c.src(s), k), lambda k=k: itertools.islice(s, k)))
        a((f"repeat({k})", lambda c, k=k: ait.repeat(7, k), lambda k=k: itertools.repeat(7, k) if k is not None else itertools.repeat(7)))
        if k is not None:
            a((f"product(repeat={k})", lambda c, k=k: ait.product(c.src(s), repeat=k), lambda k=k: itertools.product(s, repeat=k)))
            a((f"tee({k})", lambda c, k=k: tee_lists(ait.tee(c.src(s), k)), lambda k=k: [slist(t) for t in itertools.tee(s, k)]))
        for k2 in INTS:
            for k3 in (None, 1, 2, 0, -1):
                a((f"islice({k},{k2},{k3})", lambda c, k=k, k2=k2, k3=k3: ait.islice(c.src(s), k, k2, k3),
                   lambda k=k, k2=k2, k3=k3: itertools.islice(s, k, k2, k3)))
    a(("islice()", lambda c: ait.islice(c.src(s)), lambda: itertools.islice(s)))
    a(("chain", lambda c: ait.chain(c.src(s), c.src(s[::-1])), lambda: itertools.chain(s, s[::-1])))
    a(("chain()", lambda c: ait.chain(), lambda: itertools.chain()))
    a(("chain.from_iterable", lambda c: ait.chain.from_iterable(c.src([c.src(s), c.src(s[:1])])),
       lambda: itertools.chain.from_iterable([s, s[:1]])))
    a(("compress", lambda c: ait.compress(c.src(s), c.src([1, 0, 1, 1])), lambda: itertools.compress(s, [1, 0, 1, 1])))
    a(("cycle", lambda c: ait.cycle(c.src(s)), lambda: itertools.cycle(s)))
    a(("count", lambda c: ait.count(2, 3), lambda: itertools.count(2, 3)))
    a(("count()", lambda c: ait.count(), lambda: itertools.count()))
    a(("dropwhile", lambda c: ait.dropwhile(c.wrap(truthy), c.src(s)), lambda: itertools.dropwhile(truthy, s)))
    a(("takewhile", lambda c: ait.takewhile(c.wrap(truthy), c.src(s)), lambda: itertools.takewhile(truthy, s)))
    a(("filterfalse", lambda c: ait.filterfalse(c.wrap(truthy), c.src(s)), lambda: itertools.filterfalse(truthy, s)))
    a(("groupby", lambda c: ait.groupby(c.src(s)), lambda: [(k, list(g)) for k, g in itertools.groupby(s)]))
    a(("groupby(key)", lambda c: ait.groupby(c.src(s), c.wrap(keyf)), lambda: [(k, list(g)) for k, g in itertools.groupby(s, keyf)]))
    a(("pairwise", lambda c: ait.pairwise(c.src(s)), lambda: itertools.pairwise(s)))
    a(("product(a,b)", lambda c: ait.product(c.src(s), c.src(s[:2])), lambda: itertools.product(s, s[:2])))
    a(("product()", lambda c: ait.product(), lambda: itertools.product()))
    a(("starmap", lambda c: ait.starmap(c.wrap(add), c.src([c.src((x, x)) for x in s])),
       lambda: itertools.starmap(add, [(x, x) for x in s])))
    a(("zip_longest", lambda c: ait.zip_longest(c.src(s), c.src(s[:1]), fillvalue=9), lambda: itertools.zip_longest(s, s[:1], fillvalue=9)))
    a(("zip_longest()", lambda c: ait.zip_longest(), lambda: itertools.zip_longest()))
    a(("zip_longest(3)", lambda c: ait.zip_longest(c.src(s[1:]), c.src(s), c.src(s[:2])), lambda: itertools.zip_longest(s[1:], s, s[:2])))
    a(("reduce", lambda c: aft.reduce(c.wrap(add), c.src(s)), lambda: functools.reduce(add, s)))
    a(("reduce(initial)", lambda c: aft.reduce(c.wrap(add), c.src(s), 10), lambda: functools.reduce(add, s, 10)))
    a(("reduce(initial=0)", lambda c: aft.reduce(c.wrap(add), c.src(s), 0), lambda: functools.reduce(add, s, 0)))
    a(("reduce(non-commutative)", lambda c: aft.reduce(c.wrap(lambda x, y: x * 3 + y), c.src(s)),
       lambda: functools.reduce(lambda x, y: x * 3 + y, s)))
    a(("accumulate(initial=0)", lambda c: ait.accumulate(c.src(s), initial=0), lambda: itertools.accumulate(s, initial=0)))
    a(("repeat(obj)", lambda c: ait.repeat(s, 2), lambda: itertools.repeat(s, 2)))
    a(("compress(short selectors)", lambda c: ait.compress(c.src(s), c.src([0, 1])), lambda: itertools.compress(s, [0, 1])))
    return C


async def tee_lists(ts):
    return [await alist(t) for t in ts]


def norm(v):
    if isinstance(v, (list, tuple)):
        return [norm(x) for x in v]
    return v


class DiffRun:
    def __init__(self, case):
        self.case = case
        self.sim = SimRun(case["sched_seed"], LoopConfig(cap=400000, eager=case.get("eager", False)))
        self.viol = []
        self.h = History()
        self.n = 0
        self.susp = 0

    def v(self, rule, detail):
        if len(self.viol) < 10:
            self.viol.append({"rule": "C19." + rule, "sig": "C19." + rule, "detail": detail})

    async def main(self):
        self.h.loop = self.sim.loop
        seq = tuple(self.case["seq"])
        mode = self.case["mode"]
        rng = random.Random(self.case["sched_seed"])
        for name, afn, sfn in subcases(seq):
            try:
                r = sfn()
                exp = ("ok", norm(slist(r)) if hasattr(r, "__next__") else norm(r))
            except Exception as e:
                exp = ("err", type(e).__name__)
            ctx = Ctx(rng, mode)
            try:
                r = afn(ctx)
                if hasattr(r, "__aiter__"):
                    got = ("ok", norm(await alist(r)))
                else:
                    got = ("ok", norm(await r))
            except Exception as e:
                got = ("err", type(e).__name__)
            self.n += 1
            self.susp += ctx.suspensions
            self.h.rec(name, got[0])
            if got != exp:
                self.v("stdlib", f"{name} on {list(seq)} ({mode} source): anyio gives {got}, the standard library {exp}")

    def execute(self):
        sim = self.sim
        sim.run(self.main)
        if sim.outcome != "ok":
            self.v("error", f"{sim.outcome}: {sim.error!r}")
        loop = sim.loop
        c = self.case
        return {"violations": self.viol, "digest": self.h.digest((c["seq"], c["mode"])), "faults": {"source_suspension": self.susp},
                "nontrivial": True, "vtime": loop._vnow if loop else 0.0, "iters": loop.iterations if loop else 0,
                "steps": self.h.seq, "probes": {"subcases": self.n}, "cfg": ["diff:" + c["mode"]], "history_text": self.h.text(60)}


class TeeRun:
    def __init__(self, case):
        self.case = case
        self.sim = SimRun(case["sched_seed"], LoopConfig(cap=50000, eager=case.get("eager", False),
                                                         p_stall=case.get("p_stall", 0), p_late=case.get("p_late", 0)))
        self.viol = []
        self.h = History()
        self.faults = self.sim.faults

    def v(self, rule, detail):
        if len(self.viol) < 10:
            self.viol.append({"rule": "C19." + rule, "sig": "C19." + rule, "detail": detail})

    async def main(self):
        self.h.loop = self.sim.loop
        c = self.case
        seq = list(c["seq"])
        calls = [0]
        inflight = [0]
        run = self

        class Source:
            def __init__(self):
                self.i = 0

            def __aiter__(self):
                return self

            async def __anext__(self):
                calls[0] += 1
                inflight[0] += 1
                if inflight[0] > 1:
                    run.v("tee_concurrent", f"the source's __anext__ was entered concurrently (tee of {seq})")
                try:
                    d = c["src_delays"][min(self.i, len(c["src_delays"]) - 1)]
                    await sleep(d)
                    if self.i >= len(seq):
                        raise StopAsyncIteration
                    x = seq[self.i]
                    self.i += 1
                    run.h.rec("src", x)
                    return x
                finally:
                    inflight[0] -= 1

        n = c["n"]
        stack = c.get("stack")
        want = seq
        side = None
        if stack:
            # stacked tees: the consumers' tee reads a derived iterator that pulls from one branch of another tee of the
            # source (each tee() must have its own state and lock); the other branch of the inner tee is read as well
            inner = ait.tee(Source() if c["async_src"] else list(seq), 2)
            side = inner[1]
            if stack == "pairwise":
                src2 = ait.pairwise(inner[0])
                want = [tuple(p) for p in itertools.pairwise(seq)]
            else:
                async def through(it):
                    async for x in it:
                        yield x
                src2 = through(inner[0])
            its = list(ait.tee(src2, n))
            self.faults["stacked_tee"] += 1
        else:
            its = list(ait.tee(Source() if c["async_src"] else list(seq), n))
        results = {}
        extra = {}

        async def consumer(ci, it, delays, fork_at):
            out = []
            k = 0
            async for x in it:
                out.append(x)
                run.h.rec("got", ci, x)
                if fork_at is not None and k == fork_at:
                    # a tee of a tee started mid-way must see exactly the remaining elements
                    (child,) = ait.tee(it, 1)
                    extra[ci] = (len(out), child)
                    self.faults["tee_of_tee"] += 1
                k += 1
                d = delays[min(k, len(delays) - 1)]
                if d is not None:
                    await sleep(d)
            results[ci] = out

        async with create_task_group() as tg:
            for ci, it in enumerate(its):
                tg.start_soon(consumer, ci, it, c["delays"][ci], c["fork"][ci])
            if side is not None:
                tg.start_soon(consumer, "side", side, [0], None)
        norm = lambda xs: None if xs is None else [tuple(x) if isinstance(x, (tuple, list)) else x for x in xs]
        for ci in range(n):
            if norm(results.get(ci)) != want:
                self.v("tee_incomplete", f"tee consumer {ci} of {n} saw {results.get(ci)} instead of {want}"
                                         + (f" (tee over {stack}(branch of an inner tee))" if stack else ""))
        if side is not None and results.get("side") != seq:
            self.v("tee_incomplete", f"the second branch of the inner tee saw {results.get('side')} instead of {seq}")
        for ci, (pos, child) in extra.items():
            rest = norm([x async for x in child])
            if rest != want[pos:]:
                self.v("tee_incomplete", f"a tee taken from consumer {ci} after {pos} elements saw {rest} instead of {want[pos:]}")
        if c["async_src"] and (n or side is not None):
            if calls[0] != len(seq) + 1:
                self.v("tee_source_calls", f"the source's __anext__ was called {calls[0]} times for {len(seq)} elements and "
                                           f"{n} consumers (expected once per element plus once for exhaustion)")

    def execute(self):
        sim = self.sim
        sim.run(self.main)
        if sim.outcome != "ok":
            self.v("error", f"{sim.outcome}: {sim.error!r}")
        loop = sim.loop
        return {"violations": self.viol, "digest": self.h.digest(), "faults": dict(self.faults), "nontrivial": self.case["n"] > 1,
                "vtime": loop._vnow if loop else 0.0, "iters": loop.iterations if loop else 0, "steps": self.h.seq,
                "probes": {"tee_runs": 1}, "cfg": ["tee"], "history_text": self.h.text(80)}


MODES = ["sync", "async", "iter", "aiterable"]


class IterCheck:
    prop = "C19"
    engine = "func-itertools"
    level = "exploration"
    chunk = 8
    components = {
        "real": ["every function of anyio.itertools, anyio.functools.reduce", "anyio Lock (inside tee), sleep, task groups"],
        "stub": ["event loop and clock (SimLoop) - execution vehicle for part (i), schedule explorer for tee (part ii)",
                 "oracle for part (i): CPython's itertools / functools"],
    }
    assumptions = [
        "agreement with the stdlib is compared on results as lists (infinite iterators: first %d elements) and on the exception "
        "class; Python 3.12 stdlib is the reference (batched(strict=) does not exist there and is not compared)" % LIMIT,
        "tee consumers are not cancelled while fetching (outside the statement)",
    ]
    fault_kinds = ["source_suspension", "tee_of_tee", "timer_tie", "stall", "late_wakeup"]

    def __init__(self):
        self.seqs_q = all_seqs(4)
        self.seqs_t = all_seqs(6)
        # sequences containing None and other falsy / unusual elements (sentinel confusion)
        odd = [tuple(x) for n in range(1, 4) for x in itertools.product([1, None, ""], repeat=n)]
        self.table_q = [(s, m) for s in self.seqs_q + odd for m in MODES]
        self.table_t = [(s, m) for s in self.seqs_t + odd for m in MODES]
        self.budgets = {"quick": (len(self.table_q) + 60000, 120), "thorough": (len(self.table_t) + 3_000_000, 1500)}
        self.rule_text = (
            "part (i): table = all sequences over {0,1,2} up to length 4 (quick) / 6 (thorough) x source kind (list, iterator, "
            "async generator, async iterable), each row evaluating ~%d sub-cases (all 20 itertools functions + reduce, integer "
            "parameters -1..3 and None incl. invalid ones, islice with all (start,stop,step) combinations), enumerated "
            "completely; part (ii): seeded tee runs (0-3 consumers, tee-of-tee, seeded consumer/source pacing, stock/eager, "
            "stalls); distinct = SHA1 of (row, outcomes) or of the tee history; non-trivial = every table row, and tee runs "
            "with at least two consumers" % len(subcases((0, 1))))

    def bounds(self, tier):
        return {"alphabet": ALPHA, "max_len": 4 if tier == "quick" else 6, "int_parameters": [str(i) for i in INTS],
                "source_kinds": MODES, "table_rows": len(self.table_q if tier == "quick" else self.table_t),
                "subcases_per_row": len(subcases((0, 1))), "tee_consumers": [0, 3], "prefix_compared": LIMIT}

    def extra_evidence(self, tier):
        return {"exhaustive": False, "table_exhaustive": True,
                "note": "the differential table (part i) is enumerated completely on every run; the tee part is sampled"}

    def gen_case_indexed(self, index, seed, tier):
        table = self.table_q if tier == "quick" else self.table_t
        rng = random.Random(seed)
        if index < len(table):
            s, m = table[index]
            return {"engine": "func_iter", "type": "diff", "seq": list(s), "mode": m, "sched_seed": rng.getrandbits(32)}
        if tier == "thorough" and rng.random() < 0.15:
            n = rng.randint(7, 9)
            return {"engine": "func_iter", "type": "diff", "seq": [rng.choice([0, 1, 2, 3]) for _ in range(n)],
                    "mode": rng.choice(MODES), "sched_seed": rng.getrandbits(32)}
        ln = rng.randint(0, 6)
        n = rng.choice([0, 1, 2, 2, 3, 3])
        return {"engine": "func_iter", "type": "tee", "seq": [rng.randint(0, 9) for _ in range(ln)], "n": n,
                "async_src": rng.random() < 0.8,
                "src_delays": [rng.choice(DUR) for _ in range(ln + 1)],
                "delays": [[rng.choice([None, 0, 0, 0.125, 0.25, 0.5]) for _ in range(ln + 2)] for _ in range(n)],
                "fork": [rng.choice([None, None, 0, 1, 2]) for _ in range(n)],
                "eager": rng.random() < 0.3, "p_stall": rng.choice([0, 0, 0.05]), "p_late": rng.choice([0, 0, 0.2]),
                "sched_seed": rng.getrandbits(32), "stack": rng.choice([None, None, None, "pairwise", "through"])}

    def gen_case(self, seed, tier):
        return self.gen_case_indexed(10**9, seed, tier)

    def run_case(self, case):
        return (DiffRun if case["type"] == "diff" else TeeRun)(case).execute()

    def shrinks(self, case):
        import copy
        if case["type"] == "diff":
            for i in range(len(case["seq"])):
                c = copy.deepcopy(case)
                del c["seq"][i]
                yield c
            return
        for i in range(len(case["seq"])):
            c = copy.deepcopy(case)
            del c["seq"][i]
            yield c
        if case["n"] > 1:
            c = copy.deepcopy(case)
            c["n"] -= 1
            c["delays"].pop()
            c["fork"].pop()
            yield c
        for i in range(case["n"]):
            if case["fork"][i] is not None:
                c = copy.deepcopy(case)
                c["fork"][i] = None
                yield c
        for key in ("eager", "p_stall", "p_late"):
            if case.get(key):
                c = copy.deepcopy(case)
                c[key] = 0 if key != "eager" else False
                yield c
