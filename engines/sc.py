"""Engine SC: structured-concurrency programs (C01-C05, C07).

A seeded generator produces task-tree programs (nested cancel scopes with shields and deadlines,
task groups, start_soon / start children, explicit cancels of any scope / group / task handle,
shield toggles, raising and cleanup code, native asyncio.timeout blocks).  An interpreter executes
them through anyio's public API on the simulated loop and writes a history; a reference model of
cancel-scope semantics (independent of anyio's code) judges the history.  Rules are named
`Cxx.rule`; the check for property X reports only X's rules.
"""
from __future__ import annotations

import asyncio
import math
import copy
import random
from collections import Counter, defaultdict

from simkit.harness import LoopConfig, SimRun, anyio, leaves

from anyio import (CancelScope, Event, TaskHandle, create_task_group, current_effective_deadline,
                   get_cancelled_exc_class, sleep)
from anyio.lowlevel import checkpoint

CancelledError = asyncio.CancelledError
DUR = [0, 0.125, 0.25, 0.375, 0.5, 1.0]
ROOT_TIMEOUT = 60.0
JANITOR_T = 8.0
LAT_BOUND = 4          # DESIGN.md C03: calibrated maximum (2) + 2
STATUS = TaskHandle.Status


class Boom(Exception):
    def __init__(self, eid):
        super().__init__(eid)
        self.eid = eid


class BaseBoom(BaseException):
    """A failure that is not an Exception subclass (like GeneratorExit or a custom BaseException)."""

    def __init__(self, eid):
        super().__init__(eid)
        self.eid = eid


class FalsyBoom(Boom):
    """An exception object that is false in a boolean context (e.g. an error collection with __len__ that is empty):
    whether a task failed must be decided by `is not None`, never by the truth value of the exception."""

    def __bool__(self):
        return False


class EqBoom(Boom):
    """An exception type with value semantics: all instances compare equal.  Two children failing with equal errors are
    still two failures - nothing may be de-duplicated with == or `in`."""

    def __eq__(self, other):
        return isinstance(other, EqBoom)

    def __hash__(self):
        return 17


BOOMS = (Boom, BaseBoom)


def make_boom(eid):
    return BaseBoom(eid) if eid % 5 == 0 else FalsyBoom(eid) if eid % 7 == 3 else EqBoom(eid) if eid % 3 == 1 else Boom(eid)


# ------------------------------------------------------------------------------------------
# generator
# ------------------------------------------------------------------------------------------
BASE_W = dict(cp=20, sleep=18, scope=15, cancel=12, shield=4, deadline=2, group=10, spawn=12, start=3,
              raise_=3, tryfin=5, wait=2, set=2, probe=1, atimeout=0, join=1, ncancel=0)
PROP_W = {
    "C01": dict(spawn=18, group=12, tryfin=7, cancel=12, start=4, ncancel=6),
    "C02": dict(raise_=9, tryfin=8, spawn=16, group=12, start=5),
    "C03": dict(cancel=16, scope=18, shield=7, spawn=12, wait=5, set=4, sleep=20, start=1),
    "C04": dict(scope=22, shield=8, cancel=16, deadline=3, spawn=9, start=2),
    "C05": dict(scope=18, cancel=18, atimeout=9, tryfin=8, spawn=12, group=12, start=1),
    "C07": dict(start=16, group=12, cancel=14, scope=12, raise_=6, tryfin=7, spawn=6),
}


def gen_case(seed, tier, prop):
    rng = random.Random(seed)
    big = tier == "thorough"
    w = dict(BASE_W)
    w.update(PROP_W.get(prop, {}))
    if rng.random() < 0.25:      # swarm: drop a random subset of statement kinds
        for k in rng.sample(sorted(w), rng.randint(1, 4)):
            if k not in ("cp", "sleep"):
                w[k] = 0
    kinds = [k for k in sorted(w) if w[k] > 0]
    weights = [w[k] for k in kinds]
    cfg = dict(stmts=rng.randint(3, 8 if big else 6), depth=rng.randint(2, 6 if big else 4),
               groups=rng.randint(1, 6 if big else 4), tasks=rng.randint(2, 10 if big else 6),
               total=rng.randint(12, 110 if big else 60))
    st = dict(sid=0, gid=0, tid=0, eid=0, ev=0)
    nev = rng.randint(1, 3)
    p_foreign = rng.choice([0, 0.1, 0.3, 0.5] if prop == "C01" else [0, 0.1, 0.3])
    p_hcancel = 0.6 if prop == "C05" else 0.35

    def body(depth, groups, scopes, budget, tid):
        out = []
        for _ in range(rng.randint(1, cfg["stmts"])):
            if budget[0] <= 0:
                break
            budget[0] -= 1
            k = rng.choices(kinds, weights)[0]
            if k == "cp":
                out.append(["cp"])
            elif k == "sleep":
                out.append(["sleep", rng.choice(DUR)])
            elif k == "scope" and depth < cfg["depth"]:
                st["sid"] += 1
                sid = st["sid"]
                opts = {"shield": rng.random() < 0.3, "deadline": rng.choice([None, None, None, 0, 0.125, 0.25, 0.5]),
                        "pre": rng.random() < 0.08}
                if opts["deadline"] is not None and rng.random() < 0.3:
                    opts["setter"] = True        # the deadline is assigned through the property before the scope is entered
                elif rng.random() < 0.35:
                    opts["ctor"] = rng.choice(["move_on_after", "move_on_at", "fail_after", "fail_at"])
                out.append(["scope", sid, opts, body(depth + 1, groups, scopes + [sid], budget, tid)])
            elif k == "cancel":
                cands = list(scopes) + ["G%d" % g for g in groups]
                if st["tid"] and rng.random() < p_hcancel:
                    cands.append("H%d" % rng.randint(1, st["tid"]))
                if st["sid"] and rng.random() < 0.25:
                    cands.append(rng.randint(1, st["sid"]))
                if st["gid"] and rng.random() < 0.15:
                    cands.append("G%d" % rng.randint(1, st["gid"]))
                if cands:
                    out.append(["cancel", rng.choice(cands)])
            elif k == "shield" and (scopes or st["sid"] or groups):
                if groups and rng.random() < 0.25:
                    tgt = "G%d" % rng.choice(groups)
                elif scopes and rng.random() < 0.7:
                    tgt = rng.choice(scopes)
                elif st["sid"]:
                    tgt = rng.randint(1, st["sid"])
                else:
                    continue
                out.append(["shield", tgt, rng.random() < 0.5])
            elif k == "deadline" and scopes:
                out.append(["deadline", rng.choice(scopes), rng.choice([0, 0.125, 0.25, 1.0, "inf"])])
            elif k == "group" and depth < cfg["depth"] and st["gid"] < cfg["groups"]:
                st["gid"] += 1
                gid = st["gid"]
                out.append(["group", gid, body(depth + 1, groups + [gid], scopes, budget, tid)])
            elif k in ("spawn", "start") and (groups or st["gid"]) and st["tid"] < cfg["tasks"]:
                if not groups:
                    groups = [rng.randint(1, st["gid"])]
                st["tid"] += 1
                ctid = st["tid"]
                g = rng.choice(groups)
                if st["gid"] > 1 and rng.random() < p_foreign:
                    g = rng.randint(1, st["gid"])       # any group ever created, not only an enclosing one
                cb = body(depth + 1, [x for x in groups if x <= g], [], budget, ctid)
                if k == "start":
                    if rng.random() < 0.8:
                        cb.insert(rng.randint(0, len(cb)), ["started", ctid * 100 + rng.randint(0, 9)])
                        if rng.random() < 0.12:
                            cb.insert(rng.randint(0, len(cb)), ["started", ctid * 100 + 99])
                    out.append(["start", g, ctid, cb, rng.random() < 0.4])
                else:
                    out.append(["spawn", g, ctid, cb])
            elif k == "raise_":
                st["eid"] += 1
                out.append(["raise", st["eid"]])
            elif k == "tryfin":
                st["eid"] += 1
                out.append(["tryfin", body(depth + 1, groups, scopes, budget, tid),
                            rng.choice(["shield_sleep", "reraise_cp", "raise", "shield_cp"] + (["group_raise", "group_raise", "group_foreign"] if prop == "C04" else [])
                                       + (["started_twice"] * 2 if prop == "C07" else [])),
                            rng.choice(DUR[:4]), st["eid"]])
            elif k == "wait":
                out.append(["wait", rng.randrange(nev)])
            elif k == "set":
                out.append(["set", rng.randrange(nev)])
            elif k == "probe":
                out.append(["probe"])
            elif k == "ncancel" and st["tid"]:
                # native asyncio cancellation of a whole task (C01 only: its rules do not depend on the scope model),
                # without a message, with a string and with non-string messages
                out.append(["ncancel", rng.randint(1, st["tid"]), rng.choice(["none", "str", "tuple", "int"])])
            elif k == "join" and st["tid"] > tid:
                # only tasks created after the joiner: wait-for edges then always point to higher task ids
                # (group host -> children, start() caller -> child, joiner -> later task), so no cycles
                out.append(["join", rng.randint(tid + 1, st["tid"])])
            elif k == "atimeout" and depth < cfg["depth"]:
                out.append(["atimeout", rng.choice([0, 0.125, 0.25, 0.5, 1.0]),
                            body(depth + 1, groups, scopes, budget, tid)])
        return out

    prog = body(0, [], [], [cfg["total"]], 0)
    ext = []
    for _ in range(rng.choice([0, 0, 1, 2, 3])):
        t = rng.choice([0, 0.125, 0.125, 0.25, 0.25, 0.375, 0.5, 0.75, 1.0])
        r = rng.random()
        if r < 0.45 and st["sid"]:
            ext.append([t, "cancel", rng.randint(1, st["sid"])])
        elif r < 0.7 and st["gid"]:
            ext.append([t, "cancel", "G%d" % rng.randint(1, st["gid"])])
        elif r < 0.8 and st["tid"]:
            ext.append([t, "cancel", "H%d" % rng.randint(1, st["tid"])])
        else:
            ext.append([t, "set", rng.randrange(nev)])
    if prop == "C01" and st["tid"] and rng.random() < 0.35:
        # native Task.cancel() of whole tasks from outside, possibly several times on the same task (a task group's
        # host that is already unwinding with one cancellation gets another one while it waits for its children)
        tgt = rng.randint(1, st["tid"])
        for _ in range(rng.randint(1, 3)):
            if rng.random() < 0.3:
                tgt = rng.randint(1, st["tid"])
            ext.append([rng.choice([0, 0.125, 0.125, 0.25, 0.25, 0.375, 0.5]), "ncancel",
                        [tgt, rng.choice(["none", "str", "tuple", "int"])]])
    exit_ncancel = {}
    if prop == "C01" and st["gid"] and rng.random() < 0.3:
        for _ in range(rng.randint(1, 2)):
            exit_ncancel[str(rng.randint(1, st["gid"]))] = [rng.randint(0, 3), [rng.choice(["none", "str", "tuple", "int"])
                                                                                for _ in range(rng.randint(1, 2))]]
    ext.sort(key=lambda e: e[0])
    loop = LoopConfig(eager=rng.random() < 0.25, cap=8000, p_late=rng.choice([0, 0, 0, 0.15]),
                      p_stall=rng.choice([0, 0, 0, 0.04])).to_json()
    return {"engine": "sc", "prop": prop, "prog": prog, "ext": ext, "nev": nev, "loop": loop,
            "sched_seed": rng.getrandbits(32), "exit_ncancel": exit_ncancel}


# ------------------------------------------------------------------------------------------
# interpreter + reference model
# ------------------------------------------------------------------------------------------
class SCRun:
    def __init__(self, case):
        self.case = case
        self.prop = case["prop"]
        self.sim = SimRun(case["sched_seed"], LoopConfig.from_json(case["loop"]))
        self.faults = self.sim.faults
        self.probes = Counter()
        self.seq = 0
        self.hist = []
        self.viol = []
        self.notes = Counter()
        self.active = {}                # sid -> CancelScope / ('H', handle)  (polled)
        self.started_objs = {}
        self.fail_scopes = set()
        self.dl = {}
        self.dl_due = {}
        self.dl_reported = set()
        self.lingerers = {}
        self.ncancelled = {}
        self.foreign = set()            # ids of CancelledError objects raised by the program itself (not AnyIO's)
        self.foreign_keep = []
        self.scopes = {}                # sid -> CancelScope (ever created, for cancel/shield statements)
        self.groups = {}                # gid -> live task group
        self.group_chain = {}           # gid -> chain (innermost first) seen by members
        self.members = defaultdict(list)        # gid -> [ctid]
        self.handles = {}               # ctid -> TaskHandle (if visible)
        self.task_of = {}               # ctid -> asyncio.Task
        self.child_end = {}             # ctid -> ('ok', value) | ('raised', exc) | ('cancelled', exc)
        self.child_started_before_end = {}
        self.cancel_seen = {}           # sid -> seq of first observation of cancel_called
        self.shield_tl = defaultdict(list)
        self.hwin = {}                  # 'H<ctid>' -> [begin_seq, end_seq, state] for start() children
        self.ts = {}                    # ctid -> task_status
        self.started_rec = {}           # ctid -> [values passed to started() that were accepted]
        self.start_info = {}            # ctid -> dict(caller, outcome, exc, begin, end)
        self.started_refused = {}       # ctid -> [seq of started() calls that raised RuntimeError]
        self.gexit = {}                 # gid -> dict(seq, raised, body_exc, cancel_called)
        self.events = []
        self.lat = Counter()
        self.nontrivial = False
        self.root_exc = None
        self.loop = None

    # -- bookkeeping ---------------------------------------------------------------------------
    def v(self, rule, detail, sig=None):
        prop = rule.split(".")[0]
        if self.loop is not None and self.loop.aborting:
            return               # the run is being torn down after a deadlock / iteration-cap report
        if prop != self.prop:
            self.notes[rule] += 1
            return
        if len(self.viol) < 10:
            self.viol.append({"rule": rule, "sig": sig or rule, "detail": f"{detail} (seq={self.seq})"})

    def poll(self):
        seq = self.seq
        cs = self.cancel_seen
        for sid, sc in self.active.items():
            if sid not in cs:
                if type(sc) is tuple:
                    if sc[1].status is STATUS.CANCELLING:
                        cs[sid] = seq
                elif sc.cancel_called:
                    cs[sid] = seq
                elif self.prop == "C03":
                    # "cancelled explicitly or by its deadline": an active scope whose deadline (as last assigned by the
                    # program) lies in the past must have been cancelled by the next loop cycle but one
                    d = self.dl.get(sid)
                    if d is not None and self.loop._vnow >= d:
                        due = self.dl_due.setdefault(sid, self.loop.iterations)
                        if self.loop.iterations - due >= 3 and sid not in self.dl_reported:
                            self.dl_reported.add(sid)
                            self.v("C03.deadline_missed", f"scope {sid} is active, its deadline {d} has been in the past for "
                                                          f"{self.loop.iterations - due} loop cycles (now {self.loop._vnow}) and "
                                                          f"it has not been cancelled")

    def rec(self, kind, tid, **kw):
        lp = self.loop
        if lp.aborting:
            kw.update(seq=self.seq, it=lp.iterations, t=lp._vnow, kind=kind, tid=tid)
            return kw
        self.seq += 1
        self.poll()
        kw["seq"] = self.seq
        kw["it"] = lp.iterations
        kw["t"] = lp._vnow
        kw["kind"] = kind
        kw["tid"] = tid
        self.hist.append(kw)
        return kw

    def shield_at(self, sid, seq):
        v = False
        for s, b in self.shield_tl[sid]:
            if s <= seq:
                v = b
            else:
                break
        return v

    def eff(self, chain, seq):
        """Effective cancellation of the innermost scope of `chain` at record `seq`:
        True / False / None (cannot be decided from observations)."""
        maybe = False
        cs = self.cancel_seen
        for sid in chain:
            c = cs.get(sid)
            if c is not None and c <= seq:
                return True
            if type(sid) is str and sid[0] == "H":
                w = self.hwin.get(sid)
                if w is not None and w[2] != "ok" and seq >= w[0]:
                    maybe = True
            if self.shield_at(sid, seq):
                break
        return None if maybe else False

    # -- operations ------------------------------------------------------------------------------
    async def op(self, tid, chain, name, fn, exempt=False):
        b = self.rec("begin", tid, op=name, chain=tuple(chain))
        try:
            await fn()
        except CancelledError:
            e = self.rec("end", tid, op=name, out="cancelled")
            self.judge(b, e, exempt)
            raise
        e = self.rec("end", tid, op=name, out="ok")
        self.judge(b, e, exempt)

    def judge(self, b, e, exempt=False):
        chain = b["chain"]
        effs = [self.eff(chain, s) for s in range(b["seq"], e["seq"] + 1)]
        if any(x is None for x in effs):
            self.notes["undecided_op"] += 1
            return
        name = b["op"]
        if e["out"] == "cancelled":
            self.probes["op_cancelled"] += 1
            if not any(effs):
                if name == "start":
                    ctid = b.get("child")
                    info = self.start_info.get(ctid, {})
                    ce = self.child_end.get(ctid)
                    gcanc = self.eff(self.group_chain.get(info.get("gid"), ()), e["seq"])
                    f5 = not self.started_rec.get(ctid) and (ce is None or ce[0] == "cancelled")
                    why = "child-cancelled-before-started" if f5 else "other"
                    self.v("C04.a", f"task {b['tid']}: start() of child {ctid} was interrupted by a cancellation "
                                    f"although no scope around the caller was cancelled; caller chain={chain}; "
                                    f"child's group cancelled={gcanc}, child ended {ce and ce[0]}",
                           sig="C04.a:start:" + why)
                    self.v("C07.caller_interrupted", f"task {b['tid']}: start() of child {ctid} raised a cancellation "
                                                     f"although the caller's scopes {chain} were never cancelled; "
                                                     f"child's group cancelled={gcanc}, child ended {ce and ce[0]}",
                           sig="C07.caller_interrupted:" + why)
                else:
                    self.v("C04.a", f"task {b['tid']}: {name} interrupted by a cancellation although its scope chain "
                                    f"{chain} was not effectively cancelled at any instant of the operation "
                                    f"[{b['seq']}..{e['seq']}]", sig=f"C04.a:{name.rstrip('0123456789.')}")
        if exempt:
            return
        if effs[0] and all(effs) and e["out"] != "cancelled" and (name == "cp" or name.startswith("sleep") or name == "cleanup-cp"):
            self.v("C03.entered", f"task {b['tid']}: {name} entered at seq {b['seq']} inside an effectively cancelled "
                                  f"scope chain {chain} completed normally")
            if b["tid"] in self.start_info:
                # C07: a start() child is an ordinary member of its group as far as cancellation is concerned
                self.v("C07.member_not_cancelled", f"start() child {b['tid']}: {name} entered at seq {b['seq']} inside the "
                                                   f"effectively cancelled chain {chain} completed normally (a start_soon() "
                                                   f"child would have been cancelled there)")
            self.sibling_rule(b, e, f"{name} entered at seq {b['seq']} completed normally")
        if effs[-1]:
            i = len(effs) - 1
            while i > 0 and effs[i - 1]:
                i -= 1
            it0 = self.hist[b["seq"] + i - 1]["it"]
            lat = e["it"] - it0
            self.lat[lat] += 1
            if i > 0:
                self.nontrivial = True
                self.faults["cancel_while_blocked"] += 1
            if lat > LAT_BOUND:
                self.sibling_rule(b, e, f"{name} stayed blocked for {lat} loop cycles")
                if b["tid"] in self.start_info:
                    self.v("C07.member_not_cancelled", f"start() child {b['tid']}: {name} stayed blocked for {lat} loop cycles "
                                                       f"after its chain {chain} became effectively cancelled")
                self.v("C03.latency", f"task {b['tid']}: {name} stayed blocked for {lat} loop cycles (bound {LAT_BOUND}) "
                                      f"after its scope chain {chain} became effectively cancelled at seq "
                                      f"{b['seq'] + i} (ended {e['out']})")

    def sibling_rule(self, b, e, what):
        """C02: if the cancelled scope responsible is a task group that was cancelled because one of its
        tasks failed (not by an explicit cancel), its remaining tasks must be cancelled."""
        for sid in b["chain"]:
            c = self.cancel_seen.get(sid)
            if c is not None and c <= e["seq"]:
                if type(sid) is str and sid[0] == "G":
                    gid = int(sid[1:])
                    explicit = any(r["kind"] == "cancelcall" and r.get("target") == sid for r in self.hist[:e["seq"]])
                    failed = [c2 for c2 in self.members[gid] if (self.child_end.get(c2) or ("",))[0] == "raised"]
                    if failed and not explicit:
                        self.v("C02.siblings_not_cancelled",
                               f"task {b['tid']} of group {gid} was not cancelled after sibling(s) {failed} failed: {what}")
                return
            if self.shield_at(sid, e["seq"]):
                return

    def do_cancel(self, by, target):
        if isinstance(target, str) and target[0] == "G":
            tg = self.groups.get(int(target[1:]))
            if tg is None:
                return
            self.rec("cancelcall", by, target=target)
            tg.cancel_scope.cancel()
            self.cancel_seen.setdefault(target, self.seq)
            self.faults["cancel_group"] += 1
        elif isinstance(target, str) and target[0] == "H":
            h = self.handles.get(int(target[1:]))
            if h is None or h.status is not STATUS.PENDING:
                return
            self.rec("cancelcall", by, target=target)
            h.cancel()
            self.cancel_seen.setdefault(target, self.seq)
            self.faults["cancel_handle"] += 1
        else:
            sc = self.scopes.get(target)
            if sc is None:
                return
            self.rec("cancelcall", by, target=target)
            sc.cancel()
            if target in self.active:
                self.cancel_seen.setdefault(target, self.seq)
                self.faults["cancel_scope"] += 1
            else:
                self.cancel_seen.setdefault(target, self.seq)
                self.faults["cancel_inactive_scope"] += 1
        if by == "ext":
            self.faults["cancel_outside"] += 1

    async def body(self, tid, stmts, chain):
        for s in stmts:
            k = s[0]
            if k == "cp":
                await self.op(tid, chain, "cp", checkpoint)
            elif k == "sleep":
                d = s[1]
                await self.op(tid, chain, "sleep%s" % d, lambda: sleep(d))
            elif k == "wait":
                ev = self.events[s[1]]
                await self.op(tid, chain, "wait", ev.wait)
            elif k == "set":
                self.rec("set", tid, ev=s[1])
                self.events[s[1]].set()
            elif k == "cancel":
                self.do_cancel(tid, s[1])
            elif k == "shield":
                sc = self.scopes.get(s[1])
                if sc is not None:
                    self.rec("shieldset", tid, target=s[1], val=s[2])
                    sc.shield = s[2]
                    self.shield_tl[s[1]].append((self.seq, s[2]))
                    self.faults["shield_toggle"] += 1
            elif k == "deadline":
                sc = self.scopes.get(s[1])
                if sc is not None and s[1] in self.active and s[1] not in self.fail_scopes:
                    self.rec("deadlineset", tid, target=s[1], val=s[2])
                    sc.deadline = float("inf") if s[2] == "inf" else self.loop.time() + s[2]
                    self.faults["deadline_move"] += 1
                    self.dl[s[1]] = None if s[2] == "inf" else sc.deadline
                    self.dl_due.pop(s[1], None)
                    self.poll()     # a deadline that is already due cancels the scope inside the setter: that instant is
                    #                 this record, not the next one (which may be a shield toggle)
            elif k == "raise":
                self.rec("raise", tid, eid=s[1])
                self.faults["raise"] += 1
                raise make_boom(s[1])
            elif k == "probe":
                self.do_probe(tid, chain)
            elif k == "scope":
                await self.do_scope(tid, s[1], s[2], s[3], chain)
            elif k == "group":
                await self.do_group(tid, s[1], s[2], chain)
            elif k == "spawn":
                self.do_spawn(tid, s[1], s[2], s[3])
            elif k == "start":
                await self.do_start(tid, s[1], s[2], s[3], s[4] if len(s) > 4 else False, chain)
            elif k == "started":
                self.do_started(tid, s[1])
            elif k == "join":
                h = self.handles.get(s[1])
                if h is not None and (tid == 0 or s[1] > tid):
                    await self.op(tid, chain, "join", h.wait)
            elif k == "ncancel":
                self.do_ncancel(tid, s[1], s[2])
            elif k == "tryfin":
                await self.do_tryfin(tid, s, chain)
            elif k == "atimeout":
                await self.do_atimeout(tid, s[1], s[2], chain)

    def do_ncancel(self, by, target, msgkind):
        t = self.task_of.get(target)
        if t is None or t.done() or target == by or self.ncancelled.get(target, 0) >= 3:
            return
        self.ncancelled[target] = self.ncancelled.get(target, 0) + 1
        self.rec("ncancel", by, target="T%d" % target)
        self.faults["native_task_cancel"] += 1
        if self.ncancelled[target] > 1:
            self.faults["native_task_cancel_repeated"] += 1
        if msgkind == "none":
            t.cancel()
        else:
            t.cancel({"str": "stop it", "tuple": ("stop", target), "int": 7}[msgkind])

    def do_probe(self, tid, chain):
        r = self.rec("probe", tid)
        e = self.eff(chain, r["seq"])
        d = current_effective_deadline()
        if e is True and d != float("-inf"):
            self.v("C06.probe", f"task {tid}: current_effective_deadline()={d} inside an effectively cancelled chain {chain}")
        if e is False and d == float("-inf"):
            self.v("C06.probe", f"task {tid}: current_effective_deadline()=-inf although chain {chain} is not cancelled")

    async def do_tryfin(self, tid, s, chain):
        _, tb, kind, d, eid = s
        try:
            await self.body(tid, tb, chain)
        except CancelledError as exc:
            self.probes["cleanup_on_cancel"] += 1
            if kind in ("shield_sleep", "shield_cp"):
                sid = "x%d" % self.seq
                body = [["sleep", d]] if kind == "shield_sleep" else [["cp"]]
                await self.do_scope(tid, sid, {"shield": True, "deadline": None, "pre": False}, body, chain)
            elif kind == "reraise_cp":
                try:
                    await self.op(tid, chain, "cleanup-cp", checkpoint)
                except CancelledError:
                    pass
            elif kind == "raise":
                self.rec("raise", tid, eid=eid)
                self.faults["raise_in_cleanup"] += 1
                raise make_boom(eid)
            elif kind == "started_twice":
                # cleanup code that (re)announces readiness: harmless if the caller has been cancelled meanwhile
                self.do_started(tid, eid * 100 + 71)
                self.do_started(tid, eid * 100 + 72)
            elif kind == "group_raise":
                # cleanup failed while being cancelled: report both, as an exception group
                self.rec("raise", tid, eid=eid)
                self.faults["raise_group_with_cancellation"] += 1
                raise BaseExceptionGroup("cleanup failed during cancellation", [exc, Boom(eid)])
            elif kind == "group_foreign":
                # the group also carries a cancellation that is NOT AnyIO's (a bare CancelledError, as a natively
                # cancelled future or foreign code produces): no scope may ever absorb that one
                fc = CancelledError()
                self.foreign.add(id(fc))
                self.foreign_keep.append(fc)
                self.rec("raise", tid, eid=eid)
                self.faults["raise_group_with_foreign_cancellation"] += 1
                raise BaseExceptionGroup("cleanup failed during cancellation", [exc, fc, Boom(eid)])
            raise

    async def do_scope(self, tid, sid, opts, sb, chain):
        kw = {}
        if opts["deadline"] is not None:
            kw["deadline"] = self.loop.time() + opts["deadline"]
        cm = None
        ctor = opts.get("ctor")
        if opts.get("setter") and kw:
            sc = CancelScope(shield=opts["shield"])
            sc.deadline = kw["deadline"]
        elif ctor == "move_on_after" and not opts["pre"]:
            # the same scope through its other public constructors (they must forward deadline and shield)
            sc = anyio.move_on_after(opts["deadline"], shield=opts["shield"])
        elif ctor == "move_on_at" and not opts["pre"]:
            sc = anyio.move_on_at(kw.get("deadline", math.inf), shield=opts["shield"])
        elif ctor in ("fail_after", "fail_at") and not opts["pre"] and not kw:
            # without a deadline fail_after()/fail_at() never raise TimeoutError: plain scopes with a shield flag
            cm = anyio.fail_after(None, shield=opts["shield"]) if ctor == "fail_after" else anyio.fail_at(math.inf, shield=opts["shield"])
            sc = None
        else:
            sc = CancelScope(shield=opts["shield"], **kw)
        if sc is not None:
            self.scopes[sid] = sc
        if kw:
            self.dl[sid] = kw["deadline"]
        self.shield_tl[sid].append((self.seq, opts["shield"]))
        if opts["pre"]:
            self.rec("precancel", tid, target=sid)
            sc.cancel()
            self.cancel_seen.setdefault(sid, self.seq)
        task = asyncio.current_task()
        c0 = task.cancelling() - self.native_pending(task)
        inner = None
        escaped = None
        nchain = [sid] + list(chain)
        pre_rec = None
        if sc is not None:
            self.active[sid] = sc
        enter_seq = self.rec("enter", tid, sid=sid)["seq"]
        try:
            with (cm if cm is not None else sc) as entered:
                if cm is not None:
                    sc = entered
                    self.fail_scopes.add(sid)      # never given a deadline: fail_*() would turn it into a TimeoutError
                    self.scopes[sid] = sc
                    self.active[sid] = sc
                try:
                    await self.body(tid, sb, nchain)
                except BaseException as e:
                    inner = e
                    raise
                finally:
                    pre_rec = self.rec("exit_pre", tid, sid=sid)
        except BaseException as e:
            escaped = e
        self.active.pop(sid, None)
        post = self.rec("exit", tid, sid=sid)
        seq = pre_rec["seq"]
        cseen = self.cancel_seen.get(sid)
        own = cseen is not None and cseen <= seq
        pe = self.eff(chain, seq)
        shielded = self.shield_at(sid, seq)
        is_cancel = isinstance(inner, CancelledError)
        own_kind = lambda l: isinstance(l, CancelledError) and id(l) not in self.foreign      # an AnyIO cancellation
        if isinstance(inner, BaseExceptionGroup) and any(own_kind(l) for l in leaves(inner)):
            # mixed group: the AnyIO cancellation leaves are what can be absorbed
            is_cancel = True
            absorbed = not any(own_kind(l) for l in leaves(escaped))
        else:
            absorbed = is_cancel and escaped is None
        if is_cancel:
            self.probes["scope_exit_by_cancel"] += 1
            if shielded or pe is not None:
                parent_vis = (not shielded) and bool(pe)
                expect = own and not parent_vis
                if absorbed != expect:
                    self.v("C04.b", f"task {tid}: scope {sid} {'absorbed' if absorbed else 'let through'} a cancellation; "
                                    f"own cancel_called={own}, shield={shielded}, cancelled enclosing scope visible="
                                    f"{parent_vis}, enclosing chain={list(chain)}")
                elif absorbed:
                    self.probes["absorbed"] += 1
        if sc.cancelled_caught != absorbed:
            self.v("C04.c", f"task {tid}: scope {sid} cancelled_caught={sc.cancelled_caught} but it "
                            f"{'absorbed' if absorbed else 'did not absorb'} a cancellation")
        if inner is not None and not isinstance(inner, CancelledError):
            if not isinstance(inner, BaseExceptionGroup):
                if escaped is not inner:
                    self.v("C04.d", f"task {tid}: scope {sid} did not pass {inner!r} through (got {escaped!r})")
            else:
                want = [l for l in leaves(inner) if not own_kind(l)]
                got = [l for l in leaves(escaped) if not own_kind(l)]
                if sorted(map(id, want)) != sorted(map(id, got)):
                    lost = [l for l in want if id(l) not in set(map(id, got))]
                    self.v("C04.d", f"task {tid}: scope {sid} changed the leaves of an exception group that are not AnyIO "
                                    f"cancellations: {lost!r} did not pass through"
                                    + (" (a foreign CancelledError was absorbed)" if any(id(l) in self.foreign for l in lost) else ""))
        if all(self.eff(chain, q) is False for q in range(enter_seq, post["seq"] + 1)):
            if task.cancelling() - self.native_pending(task) != c0:
                self.v("C05.cancelling", f"task {tid}: after leaving scope {sid} (no enclosing scope effectively cancelled) "
                                         f"Task.cancelling()={task.cancelling()} with {self.native_pending(task)} native "
                                         f"cancel request(s) of the program itself pending, but it was {c0} on entry")
            else:
                self.probes["cancelling_restored"] += 1
        if escaped is not None:
            raise escaped

    def native_pending(self, task):
        """asyncio.timeout blocks around the task's current position whose cancel request is pending."""
        return sum(1 for cm in self._native.get(task, ()) if cm.expired())

    async def do_atimeout(self, tid, d, sb, chain):
        task = asyncio.current_task()
        c0 = task.cancelling() - self.native_pending(task)
        enter_seq = self.rec("atimeout_enter", tid, d=d)["seq"]
        cm = asyncio.timeout(d)
        inner = None
        escaped = None
        stack = self._native.setdefault(task, [])
        try:
            async with cm:
                stack.append(cm)
                try:
                    await self.body(tid, sb, chain)
                except BaseException as e:
                    inner = e
                    raise
                finally:
                    stack.pop()
        except BaseException as e:
            escaped = e
        post = self.rec("atimeout_exit", tid, expired=cm.expired())
        self.faults["native_timeout_block"] += 1
        if cm.expired():
            self.faults["native_cancel"] += 1
        clean = self.native_pending(task) == 0 and all(
            self.eff(chain, q) is False for q in range(enter_seq, post["seq"] + 1))
        if clean:
            if cm.expired() and isinstance(inner, asyncio.CancelledError) and not isinstance(escaped, TimeoutError):
                self.v("C05.native_timeout", f"task {tid}: asyncio.timeout({d}) expired and the body ended in "
                                             f"CancelledError, but the block raised {escaped!r} instead of TimeoutError")
            if not cm.expired() and isinstance(escaped, TimeoutError) and not isinstance(inner, TimeoutError):
                self.v("C05.native_timeout", f"task {tid}: asyncio.timeout({d}) raised TimeoutError without expiring")
            if task.cancelling() - self.native_pending(task) != c0:
                self.v("C05.cancelling", f"task {tid}: Task.cancelling()={task.cancelling()} after asyncio.timeout block, "
                                         f"{c0} before it")
        if escaped is not None:
            raise escaped

    async def do_group(self, tid, gid, gb, chain):
        gs = "G%d" % gid
        nchain = [gs] + list(chain)
        raised = None
        body_exc = None
        tg = None
        try:
            async with create_task_group() as tg:
                self.groups[gid] = tg
                self.scopes[gs] = tg.cancel_scope
                self.active[gs] = tg.cancel_scope
                self.shield_tl[gs].append((self.seq, False))
                self.group_chain[gid] = nchain
                self.rec("genter", tid, gid=gid)
                try:
                    await self.body(tid, gb, nchain)
                except BaseException as e:
                    body_exc = e
                    raise
                finally:
                    self.rec("gbody_end", tid, gid=gid)
                    nat = self.case.get("exit_ncancel", {}).get(str(gid))
                    if nat:
                        # directed fault (C01 runs): native cancellations of the host while the group is being left,
                        # one or two of them, k loop cycles after the end of the body, with seeded message kinds
                        host = asyncio.current_task()
                        linger_state = self.lingerers.setdefault(gid, {"done": False})

                        async def linger():
                            # a child that needs a while to finish (clean-up behind a shield), so that the host really waits
                            try:
                                with CancelScope(shield=True):
                                    await anyio.sleep(0.25)
                            finally:
                                linger_state["done"] = True
                        if gid in self.groups:
                            try:
                                tg.start_soon(linger)
                            except RuntimeError:
                                linger_state["done"] = True

                        def fire(left, msgs):
                            if left > 0:
                                self.loop.call_soon(fire, left - 1, msgs)
                            elif not host.done() and gid in self.groups:
                                self.rec("ncancel", "ext", target="host of G%d" % gid)
                                self.faults["native_cancel_during_group_exit"] += 1
                                m = msgs[0]
                                host.cancel(*([] if m == "none" else [{"str": "stop it", "tuple": ("stop", gid), "int": 7}[m]]))
                                if len(msgs) > 1:
                                    self.loop.call_soon(fire, 1, msgs[1:])
                        fire(nat[0], nat[1])
        except BaseException as e:
            raised = e
        self.active.pop(gs, None)
        x = self.rec("gexit", tid, gid=gid)
        self.groups.pop(gid, None)
        self.gexit[gid] = dict(seq=x["seq"], raised=raised, body_exc=body_exc, cancel_called=tg.cancel_scope.cancel_called,
                               chain=tuple(chain), tid=tid)
        # C01: everything spawned into the group is over
        if gid in self.lingerers and not self.lingerers[gid]["done"]:
            self.v("C01.alive", f"group {gid} exited ({type(raised).__name__ if raised is not None else 'normally'}: {raised!r}) "
                                f"while a child that is finishing its clean-up behind a shield is still running")
        for ctid in self.members[gid]:
            t = self.task_of.get(ctid)
            h = self.handles.get(ctid)
            if t is not None and not t.done():
                self.v("C01.alive", f"group {gid} exited while child task {ctid} is still running")
            if h is not None and h.status in (STATUS.PENDING, STATUS.CANCELLING):
                self.v("C01.status", f"group {gid} exited but the handle of child {ctid} reports {h.status.name}")
            elif h is not None:
                self.check_handle(gid, ctid, h)
        if raised is not None:
            raise raised

    def check_handle(self, gid, ctid, h):
        end = self.child_end.get(ctid)
        st = h.status
        if end is None:
            # the child's coroutine never ran (cancelled before its first step)
            if st is not STATUS.CANCELLED:
                self.v("C01.handle", f"child {ctid} never ran, yet its handle reports {st.name}")
            return
        kind, val = end
        if kind == "ok":
            if st is not STATUS.FINISHED or h.return_value is not val:
                self.v("C01.handle", f"child {ctid} returned {val!r} but its handle reports {st.name}")
            else:
                self.probes["handle_finished"] += 1
        elif kind == "raised":
            if st is not STATUS.FAILED or h.exception is not val:
                self.v("C01.handle", f"child {ctid} raised {val!r} but its handle reports {st.name}")
            else:
                self.probes["handle_failed"] += 1
        else:
            if st is not STATUS.CANCELLED:
                self.v("C01.handle", f"child {ctid} ended by cancellation but its handle reports {st.name}")
            else:
                self.probes["handle_cancelled"] += 1

    def do_spawn(self, tid, gid, ctid, cbody):
        tg = self.groups.get(gid)
        if tg is None:
            return
        was_cancelled = tg.cancel_scope.cancel_called
        try:
            h = tg.start_soon(self.child, ctid, gid, cbody, name=f"c{ctid}")
        except RuntimeError:
            self.notes["spawn_refused"] += 1
            return
        self.members[gid].append(ctid)
        self.handles[ctid] = h
        self.active["H%d" % ctid] = ("H", h)
        self.shield_tl["H%d" % ctid].append((self.seq, False))
        self.rec("spawn", tid, child=ctid, gid=gid)
        if was_cancelled:
            self.faults["spawn_into_cancelled_group"] += 1
            self.nontrivial = True

    def do_started(self, tid, val):
        ts = self.ts.get(tid)
        if ts is None:
            return
        self.rec("started", tid, val=val)
        if val % 3 == 0:
            # the started() value is data whatever its type: sometimes an exception *instance*
            val = self.started_objs.setdefault(val, Boom(("started value, not an error", val)))
        try:
            ts.started(val)
        except RuntimeError:
            self.rec("started_refused", tid)
            self.started_refused.setdefault(tid, []).append(self.seq)
            if not self.started_rec.get(tid):
                self.v("C07.started", f"child {tid}: first started() call raised RuntimeError")
            self.probes["second_started_refused"] += 1
        else:
            if self.started_rec.get(tid):
                info = self.start_info.get(tid)
                # a second started() is only tolerated if the caller was cancelled meanwhile
                if info is not None and info.get("outcome") == "ok":
                    self.v("C07.started", f"child {tid}: second started() call was accepted although start() had returned")
            self.started_rec.setdefault(tid, []).append(val)

    async def do_start(self, tid, gid, ctid, cbody, want_handle, chain):
        tg = self.groups.get(gid)
        if tg is None:
            return
        hs = "H%d" % ctid
        self.members[gid].append(ctid)
        b = self.rec("begin", tid, op="start", chain=tuple(chain), child=ctid)
        foreign = ("G%d" % gid) not in chain or any(self.shield_at(s, b["seq"]) for s in chain[:list(chain).index("G%d" % gid)])
        info = self.start_info[ctid] = dict(caller=tid, begin=b["seq"], outcome=None, exc=None, gid=gid, foreign=foreign)
        self.hwin[hs] = [b["seq"], None, "pending"]
        self.shield_tl[hs].append((self.seq, False))
        self.faults["start_call"] += 1
        if foreign:
            self.faults["start_from_foreign_scope"] += 1
        try:
            val = await tg.start(self.child_started, ctid, gid, cbody, name=f"c{ctid}", return_handle=want_handle)
        except CancelledError as ex:
            e = self.rec("end", tid, op="start", out="cancelled", child=ctid)
            self.hwin[hs][1:] = [e["seq"], "failed"]
            info.update(outcome="cancelled", exc=ex, end=e["seq"])
            self.judge(b, e, exempt=True)
            self.after_start_raise(ctid, info)
            self.nontrivial = True
            raise
        except RuntimeError as ex:
            if "not active" in str(ex):
                self.members[gid].pop()
                del self.start_info[ctid]
                del self.hwin[hs]
                self.notes["start_refused"] += 1
                return
            ce = self.child_end.get(ctid)
            out = "raised" if ce is not None and ce[0] == "raised" and ce[1] is ex else "runtimeerror"
            e = self.rec("end", tid, op="start", out=out, child=ctid)
            self.hwin[hs][1:] = [e["seq"], "failed"]
            info.update(outcome=out, exc=ex, end=e["seq"])
            self.after_start_raise(ctid, info)
            raise
        except BaseException as ex:
            e = self.rec("end", tid, op="start", out="raised", child=ctid)
            self.hwin[hs][1:] = [e["seq"], "failed"]
            info.update(outcome="raised", exc=ex, end=e["seq"])
            self.after_start_raise(ctid, info)
            raise
        e = self.rec("end", tid, op="start", out="ok", child=ctid)
        self.hwin[hs][1:] = [e["seq"], "ok"]
        info.update(outcome="ok", end=e["seq"])
        if want_handle:
            h = val
            self.handles[ctid] = h
            self.active[hs] = ("H", h)
            val = h.start_value
        acc = self.started_rec.get(ctid)
        if not acc:
            self.v("C07.value", f"start() of child {ctid} returned {val!r} although the child never called started()")
        elif acc[0] is not val and acc[0] != val:
            self.v("C07.value", f"start() of child {ctid} returned {val!r}; the child passed {acc[0]!r} to started()")
        else:
            self.probes["start_returned_value"] += 1
        t = self.task_of.get(ctid)
        if t is not None and t.done() and ctid not in self.child_end:
            self.v("C07.member", f"child {ctid} vanished after start() returned")

    def after_start_raise(self, ctid, info):
        """start() raised: the child must be completely over (C07)."""
        t = self.task_of.get(ctid)
        ex = info["exc"]
        if t is not None and not t.done():
            self.v("C07.child_alive", f"start() of child {ctid} raised {type(ex).__name__} while the child task is still running")
        end = self.child_end.get(ctid)
        out = info["outcome"]
        if out == "raised":
            if end is None or end[0] != "raised" or end[1] is not ex:
                self.v("C07.exception", f"start() of child {ctid} raised {ex!r}, which is not what the child raised ({end})")
            elif self.started_rec.get(ctid):
                self.v("C07.exception", f"start() of child {ctid} raised the child's exception after started() was accepted")
            else:
                self.probes["start_raised_child_exception"] += 1
        elif out == "runtimeerror":
            if end is not None and end[0] == "raised":
                self.v("C07.exception", f"start() of child {ctid} raised RuntimeError although the child raised {end[1]!r}")
            elif end is not None and end[0] == "ok" and self.started_rec.get(ctid):
                self.v("C07.exception", f"start() of child {ctid} raised RuntimeError although started() had been called")
            else:
                self.probes["start_runtimeerror_no_started"] += 1

    async def child_started(self, ctid, gid, cbody, *, task_status):
        self.ts[ctid] = task_status
        return await self.child(ctid, gid, cbody)

    async def child(self, ctid, gid, cbody):
        self.task_of[ctid] = asyncio.current_task()
        chain = ["H%d" % ctid] + list(self.group_chain[gid])
        self.rec("cstart", ctid)
        # a task's return value is data whatever its type: every third child returns an exception *instance*
        val = Boom(("returned, not raised", ctid)) if ctid % 3 == 0 else None if ctid % 3 == 1 else ("ret", ctid)
        try:
            await self.body(ctid, cbody, chain)
        except CancelledError as e:
            self.child_end[ctid] = ("cancelled", e)
            self.rec("cend", ctid, out="cancelled")
            raise
        except BaseException as e:
            self.child_end[ctid] = ("raised", e)
            self.rec("cend", ctid, out="raised")
            raise
        self.child_end[ctid] = ("ok", val)
        self.rec("cend", ctid, out="ok")
        return val

    # -- main ----------------------------------------------------------------------------------
    async def main(self):
        self.loop = loop = self.sim.loop
        self._native = {}
        self.events = [Event() for _ in range(self.case["nev"])]
        for t, what, arg in self.case["ext"]:
            if what == "cancel":
                loop.call_external_at(t, self.do_cancel, "ext", arg)
            elif what == "ncancel":
                loop.call_external_at(t, self.do_ncancel, "ext", arg[0], arg[1])
            else:
                loop.call_external_at(t, self.ext_set, arg)
        loop.call_at(loop.time() + JANITOR_T, self.janitor)
        try:
            with anyio.move_on_after(ROOT_TIMEOUT) as root:
                self.scopes["R"] = root
                self.active["R"] = root
                self.shield_tl["R"].append((0, False))
                await self.body(0, self.case["prog"], ["R"])
        except BaseException as e:
            self.root_exc = e
        self.active.pop("R", None)
        self.rec("root_end", 0)
        if self.cancel_seen.get("R") is not None:
            self.notes["root_timeout"] += 1
        # let the loop settle, then look for residue (C05)
        it0 = loop.iterations
        for _ in range(3):
            await asyncio.sleep(0)
        residue = [h for h in loop._scheduled if not h._cancelled and getattr(h._callback, "__self__", None).__class__.__name__ == "CancelScope"]
        if residue:
            self.v("C05.timer", f"{len(residue)} cancel-scope timer(s) still armed after the program ended")
        busy = [h for h in loop._ready if not h._cancelled and "_deliver_cancellation" in repr(h._callback)]
        if busy:
            self.v("C05.busy", "a cancellation delivery callback is still rescheduling itself after the program ended")

    def janitor(self):
        # termination discipline: every event is eventually set, so no generated wait blocks forever
        for i, ev in enumerate(self.events):
            if not ev.is_set():
                self.rec("set", "janitor", ev=i)
                ev.set()

    def ext_set(self, i):
        self.rec("set", "ext", ev=i)
        self.events[i].set()

    def post_checks(self):
        """History checks that need the whole run (C01 late steps, C02 conservation, group rules)."""
        hist = self.hist
        # C01: no member executes a step after its group's exit
        for gid, gx in self.gexit.items():
            mem = set(self.members[gid])
            sx = gx["seq"]
            for r in hist[sx:]:
                if r["tid"] in mem and r["kind"] not in ("cancelcall",):
                    self.v("C01.late_step", f"child {r['tid']} of group {gid} executed {r['kind']} at seq {r['seq']} "
                                            f"after the group's block had exited at seq {sx}")
                    break
        canc = asyncio.CancelledError
        handed = {}     # ctid -> exception object handed to the start() caller
        for ctid, info in self.start_info.items():
            if info["outcome"] == "raised":
                handed[ctid] = info["exc"]
        for gid, gx in self.gexit.items():
            exp = {}
            be = gx["body_exc"]
            for l in leaves(be):
                if not isinstance(l, canc):
                    exp[id(l)] = l
            undecided = False
            for ctid in self.members[gid]:
                end = self.child_end.get(ctid)
                if end is None or end[0] != "raised":
                    continue
                if ctid in handed and handed[ctid] is end[1]:
                    continue
                info = self.start_info.get(ctid)
                if info is not None and info["outcome"] is None:
                    undecided = True
                for l in leaves(end[1]):
                    if not isinstance(l, canc):
                        exp[id(l)] = l
            raised = gx["raised"]
            got_all = list(leaves(raised))
            got = [l for l in got_all if not isinstance(l, canc)]
            if undecided:
                continue
            if len({id(l) for l in got}) != len(got):
                self.v("C02.duplicate", f"group {gid} reported an exception more than once: {got!r}")
            if {id(l) for l in got} != set(exp):
                missing = [repr(e) for k, e in exp.items() if k not in {id(l) for l in got}]
                extra = [repr(l) for l in got if id(l) not in exp]
                self.v("C02.group", f"group {gid} raised leaves {[repr(l) for l in got]} but body+children raised "
                                    f"{[repr(e) for e in exp.values()]} (missing {missing}, unexpected {extra})",
                       sig="C02.group:" + ("missing" if missing else "extra"))
            elif exp:
                self.probes["group_reported_errors"] += 1
            if isinstance(raised, BaseExceptionGroup) and any(isinstance(l, canc) for l in got_all):
                self.v("C02.cancel_leaf", f"group {gid} reported a cancellation exception as an error: {raised!r}")
            if exp and not gx["cancel_called"] and self.eff(gx["chain"], gx["seq"]) is False:
                self.v("C02.siblings", f"group {gid}: a task failed but the group's scope was not cancelled")
            if not exp and raised is not None:
                if not isinstance(raised, canc):
                    self.v("C02.spurious", f"group {gid} raised {raised!r} although nothing failed")
                else:
                    pe = self.eff(gx["chain"], gx["seq"])
                    if pe is False:
                        self.v("C02.spurious", f"group {gid} raised a cancellation although no enclosing scope "
                                               f"{gx['chain']} was cancelled and nothing failed", sig="C02.spurious:cancel")
        # global conservation: every program exception that escaped a task reaches the root exactly once
        surfaced = Counter(id(l) for l in leaves(self.root_exc) if isinstance(l, BOOMS))
        for ctid, end in self.child_end.items():
            if end[0] != "raised":
                continue
            for l in leaves(end[1]):
                if isinstance(l, BOOMS):
                    if surfaced.get(id(l), 0) == 0:
                        info = self.start_info.get(ctid)
                        self.v("C02.lost", f"exception Boom#{l.eid} escaped task {ctid} but never surfaced at the root "
                                           f"(start-info: {None if info is None else info['outcome']})",
                               sig="C02.lost:" + ("start" if info is not None else "plain"))
                        if info is not None and info["outcome"] == "cancelled":
                            self.v("C07.lost_error", f"child {ctid} raised Boom#{l.eid} while its start() caller was being "
                                                     f"cancelled and the error surfaced nowhere")
                    elif surfaced[id(l)] > 1:
                        self.v("C02.duplicate", f"exception Boom#{l.eid} surfaced {surfaced[id(l)]} times at the root")
        # C07: once the caller of start() has been cancelled, started() calls are ignored, never an error
        for ctid, seqs in self.started_refused.items():
            info = self.start_info.get(ctid)
            if info is not None and info["outcome"] == "cancelled":
                self.v("C07.started_after_cancel", f"child {ctid}: started() raised RuntimeError at seq {seqs[0]} although its "
                                                   f"start() caller had been cancelled (the call must be ignored)")
        # C07: a failed/never-started child must not cancel the group on that account (checked when decidable)
        for ctid, info in self.start_info.items():
            if info["outcome"] in ("raised", "runtimeerror"):
                gx = self.gexit.get(info["gid"])
                if gx is None:
                    continue
                others = [c for c in self.members[info["gid"]] if c != ctid and (self.child_end.get(c) or ("",))[0] == "raised"
                          and c not in handed]
                explicit = any(r["kind"] == "cancelcall" and r.get("target") == "G%d" % info["gid"] for r in hist)
                outer = self.eff(gx["chain"], gx["seq"])
                body_failed = gx["body_exc"] is not None
                if gx["cancel_called"] and not others and not explicit and outer is False and not body_failed:
                    self.v("C07.group_cancelled", f"group {info['gid']} was cancelled although the only failure was child "
                                                  f"{ctid} ending before started() (reported through start())")

    def execute(self):
        sim = self.sim
        sim.run(self.main)
        if sim.loop is not None:
            sim.loop.aborting = False
        if sim.outcome == "deadlock":
            self.v("C03.stuck", f"would block forever: {sim.error}")
            if self.prop in ("C01", "C02", "C07"):
                # generated programs terminate by construction: a task group block (or a start() call) that never
                # finishes never delivers what these properties promise about its end
                blocked = [(r["tid"], r.get("op")) for r in self.hist if r["kind"] == "begin"][-3:]
                self.v(self.prop + ".never_finishes", f"the program would block forever ({sim.error}); last operations begun: {blocked}")
        elif sim.outcome == "itercap":
            self.v("C03.stuck", f"busy loop / iteration cap: {sim.error}", sig="C03.stuck:itercap")
            self.v("C05.busy", f"iteration cap: {sim.error}", sig="C05.busy:itercap")
        elif sim.outcome == "exc":
            raise sim.error
        else:
            for l in leaves(self.root_exc):
                if not isinstance(l, BOOMS + (CancelledError, TimeoutError)) and not (
                        isinstance(l, RuntimeError) and "started" in str(l)):
                    tb = l.__traceback__
                    while tb is not None and tb.tb_next is not None:
                        tb = tb.tb_next
                    where = tb.tb_frame.f_code.co_filename if tb is not None else "?"
                    if "/verif/" in where or where == "?":
                        raise l         # raised by the interpreter itself: a harness bug, not a property violation
                    # raised inside the library (or the standard library on its behalf): no program statement raises it
                    import traceback
                    self.v(self.case["prop"] + ".error",
                           f"the program ended with {type(l).__name__}: {l} raised at {where.rsplit('/', 2)[-1]}:{tb.tb_lineno}, "
                           f"which no statement of the program raises\n" + "".join(traceback.format_exception(l))[-900:],
                           sig=self.case["prop"] + ".error:" + type(l).__name__)
                    break
            else:
                self.post_checks()
        loop = sim.loop
        import hashlib
        h = hashlib.sha1()
        for r in self.hist:
            h.update(repr((r["seq"], r["it"], r["t"], r["kind"], r["tid"], r.get("op"), r.get("out"), r.get("sid"),
                           r.get("gid"), r.get("target"))).encode())
        return {"violations": self.viol, "digest": h.hexdigest(), "faults": dict(self.faults),
                "nontrivial": self.nontrivial, "vtime": loop._vnow if loop else 0.0,
                "iters": loop.iterations if loop else 0, "steps": self.seq, "probes": dict(self.probes),
                "cfg": ["eager" if self.case["loop"]["eager"] else "stock"], "notes": dict(self.notes),
                "lat": dict(self.lat),
                "history_text": [" ".join(f"{k}={v}" for k, v in r.items()) for r in self.hist[:300]]}


# ------------------------------------------------------------------------------------------
# shrinking
# ------------------------------------------------------------------------------------------
BODY_AT = {"scope": 3, "group": 2, "spawn": 3, "start": 3, "tryfin": 1, "atimeout": 2}


def _paths(prog, prefix=()):
    for i, st in enumerate(prog):
        yield prefix + (i,), st
        bi = BODY_AT.get(st[0])
        if bi is not None:
            yield from _paths(st[bi], prefix + (i, bi))


def _get(prog, path):
    cur = prog
    for p in path:
        cur = cur[p]
    return cur


def shrinks(case):
    prog = case["prog"]
    paths = list(_paths(prog))
    # delete statements (largest subtrees first)
    paths.sort(key=lambda ps: -len(repr(ps[1])))
    for path, st in paths:
        c = copy.deepcopy(case)
        parent = _get(c["prog"], path[:-1])
        del parent[path[-1]]
        yield c
    # unwrap compound statements
    for path, st in paths:
        bi = BODY_AT.get(st[0])
        if bi is not None and st[0] in ("scope", "tryfin", "atimeout"):
            c = copy.deepcopy(case)
            parent = _get(c["prog"], path[:-1])
            parent[path[-1]:path[-1] + 1] = copy.deepcopy(st[bi])
            yield c
    for i in range(len(case["ext"])):
        c = copy.deepcopy(case)
        del c["ext"][i]
        yield c
    for path, st in paths:
        if st[0] == "sleep" and st[1] not in (0,):
            c = copy.deepcopy(case)
            _get(c["prog"], path)[1] = 0
            yield c
        if st[0] == "scope" and (st[2]["shield"] or st[2]["deadline"] is not None or st[2]["pre"]):
            for k, v in (("shield", False), ("deadline", None), ("pre", False)):
                if st[2][k] not in (v,):
                    c = copy.deepcopy(case)
                    _get(c["prog"], path)[2][k] = v
                    yield c
    for key, val in (("eager", False), ("p_late", 0), ("p_stall", 0)):
        if case["loop"].get(key):
            c = copy.deepcopy(case)
            c["loop"][key] = val
            yield c


class SCCheck:
    engine = "sc"
    level = "exploration"
    chunk = 48
    components = {
        "real": ["anyio CancelScope / TaskGroup / TaskHandle / start() / Event / sleep / checkpoint (asyncio backend)",
                 "asyncio Task, Future, timeout machinery"],
        "stub": ["event loop scheduling and clock (SimLoop: virtual time; seeded timer ties, late wake-ups, stalls, "
                 "external-callback positions)", "set iteration order inside anyio (SimSet, seeded)"],
    }
    assumptions = [
        "asyncio backend only (trio not installed); uvloop not simulated",
        "call_soon is FIFO; the simulator never reorders the ready queue",
        "reference semantics: Trio-style cancel scopes as restated in C03/C04 (effective cancellation = walk outwards "
        "to a cancelled scope before crossing a shield); observations of cancel_called are polled at every history "
        "record; instants the harness cannot order are three-valued and never judged",
        "generated cleanup code never swallows a cancellation (documented as undefined behaviour)",
        "cancellation latency bound K=%d loop cycles (calibrated maximum 2 on the repaired tree)" % LAT_BOUND,
    ]
    fault_kinds = ["cancel_scope", "cancel_group", "cancel_handle", "cancel_outside", "cancel_inactive_scope",
                   "cancel_while_blocked", "shield_toggle", "deadline_move", "raise", "raise_in_cleanup",
                   "spawn_into_cancelled_group", "start_call", "start_from_foreign_scope", "native_cancel",
                   "timer_tie", "late_wakeup", "stall", "external_cb", "set_order"]

    def __init__(self, prop):
        self.prop = prop
        # (native_cancel = asyncio.timeout around / inside scopes: C05 programs only; native Task.cancel(): C01 only)
        self.fault_kinds = [k for k in self.fault_kinds if k != "native_cancel" or prop == "C05"]
        if prop == "C01":
            self.fault_kinds += ["native_task_cancel", "native_task_cancel_repeated", "native_cancel_during_group_exit"]
        self.budgets = {"quick": (500_000, 100), "thorough": (20_000_000, 1500)}
        self.rule_text = (
            "cases = seeded task-tree programs (statements: checkpoint, sleep, event wait/set, nested cancel scopes "
            "with shield/deadline/pre-cancel, cancel of any scope/group/task handle, shield toggle, deadline move, "
            "task group, start_soon child, start() child with started() anywhere/nowhere/twice, raise, try/finally "
            "cleanups (shielded, re-raising, raising), join, asyncio.timeout) + external cancel/set callbacks at seeded "
            "virtual times and ready-queue positions; generator weights biased per property; stock or eager task "
            "factory; distinct = SHA1 of the event history (kind, task, op, outcome, scope, loop iteration, virtual "
            "time); non-trivial = a cancellation became effective while a task was blocked in an operation, a task "
            "was spawned into an already cancelled group, or a start() caller was interrupted")

    def bounds(self, tier):
        big = tier == "thorough"
        return {"tasks": [2, 10 if big else 6], "scope_depth": [2, 6 if big else 4], "groups": [1, 6 if big else 4],
                "statements_per_body": [3, 8 if big else 6], "statements_total": [12, 110 if big else 60],
                "external_actions": [0, 3], "durations": DUR, "iteration_cap": 8000, "latency_bound": LAT_BOUND}

    def gen_case(self, seed, tier):
        if self.prop == "C03" and seed % 100 == 7:
            # "any waiting AnyIO operation": one case in 100 is a to_thread workload (real worker threads under the baton
            # scheduler, engines/threads_to.py) looked at with C03's eyes only - a caller whose scope is cancelled
            # while it waits for a limiter token must be interrupted
            from engines import threads_to
            c = threads_to.gen_case(seed, tier)
            c["as_prop"] = "C03"
            return c
        return gen_case(seed, tier, self.prop)

    def run_case(self, case):
        if case.get("as_prop") == "C03":
            from engines import threads_to
            r = threads_to.ToThreadRun(case).execute()
            viol = []
            for v in r["violations"]:
                if v["rule"] == "C14.queued_cancel":
                    viol.append({"rule": "C03.limiter_wait", "sig": "C03.limiter_wait",
                                 "detail": "to_thread.run_sync() waiting for a limiter token: " + v["detail"]})
            r["violations"] = viol
            r["cfg"] = ["to_thread"]
            return r
        return SCRun(case).execute()

    def shrinks(self, case):
        if case.get("as_prop") == "C03":
            from engines import threads_to
            return threads_to.shrinks(case)
        return shrinks(case)
