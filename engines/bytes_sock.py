"""Engine BYTES/sockets (C18): anyio socket streams over a simulated kernel.

"TCP-like" ends are the real anyio StreamProtocol + SocketStream on the real
asyncio.selector_events._SelectorSocketTransport (built as connect_tcp() builds them, or through anyio's own
wrap_stream_socket() path), "UNIX-like" ends are the real anyio UNIXSocketStream on
the raw socket object; the socket objects are SimSockets (simkit/simio.py): bounded kernel buffers (1 byte
.. several KiB), seeded short reads/writes, spurious EAGAIN, in-flight delays and readiness order.

Workload: both ends run a writer task (messages from 1 byte to several socket buffers, pauses, then
send_eof or close) and a reader task (receive(max_bytes) with seeded pauses, so that buffers fill and the
writer blocks), i.e. full duplex; plus probes: a second concurrent user of a direction, use after local
close, closing while the own reader is blocked.
"""
from __future__ import annotations

import asyncio
import copy
import random
import socket
from asyncio import selector_events

from simkit.harness import History, LoopConfig, SimRun, anyio
from simkit.simio import SimIOLoop

import anyio._backends._asyncio as A
from anyio import (BrokenResourceError, BusyResourceError, ClosedResourceError, EndOfStream, create_task_group,
                   get_cancelled_exc_class, sleep)

CLOSE_LAT = 4


def gen_case(seed, tier, prop="C18"):
    rng = random.Random(seed)
    big = tier == "thorough"
    caps = [1, 2, 7, 17, 64, 256, 1024, 4096]

    def side():
        msgs = []
        for _ in range(rng.randint(0, 6 if big else 4)):
            msgs.append(rng.choice([1, 1, 2, 5, 17, 100, 300, 1000, 5000] if big else [1, 2, 5, 17, 100, 300, 1000]))
        return {"kind": rng.choice(["tcp", "tcp_wrapped", "unix", "tcp", "tcp_wrapped", "unix", "unix_from_socket", "tcp_from_socket"]),
                "rtimeout": [rng.choice([None, None, None, 0, 0.0625]) for _ in range(3)],
                "msgs": msgs,
                "wpause": [rng.choice([0, 0, 0, 0.125]) for _ in range(3)],
                "end": rng.choice(["eof", "eof", "close", "eof_close"]),
                "recv_sizes": [rng.choice([1, 3, 11, 100, 65536]) for _ in range(3)],
                "rpause": [rng.choice([0, 0, 0.125, 0.5]) for _ in range(3)],
                "probe": rng.choice([None, None, None, "busy_send", "busy_recv", "use_after_close", "close_blocked_reader",
                                     "close_while_busy"]),
                "close_after": rng.choice([0.125, 0.25, 0.5, 1.0]),
                # request/response style: after its last send() the writer stays connected and silent until the peer has
                # read everything (no EOF or further data that could push a stuck remainder out)
                "wait_peer": rng.random() < 0.4}

    a, b = side(), side()
    total = sum(a["msgs"]) + sum(b["msgs"])
    cap_ab, cap_ba = rng.choice(caps), rng.choice(caps)
    if total > 3000:
        cap_ab, cap_ba = max(cap_ab, 17), max(cap_ba, 17)
    return {"engine": "sock", "prop": "C18", "a": a, "b": b, "cap_ab": cap_ab, "cap_ba": cap_ba,
            "kernel": {"short_read": rng.choice([0, 0.2, 0.5]), "short_write": rng.choice([0, 0.2, 0.5]),
                       "eagain": rng.choice([0, 0, 0.1]), "delays": rng.choice([[0], [0, 0, 0.125], [0.125, 0.25]]),
                       "io_first": 0},
            "eager": rng.random() < 0.2, "sched_seed": rng.getrandbits(32)}


def payload(tag, sizes):
    out = []
    ctr = 0
    for n in sizes:
        out.append(bytes(((tag * 7 + ctr + j) % 251) for j in range(n)))
        ctr += n
    return out


class SockRun:
    def __init__(self, case):
        self.case = case
        kcfg = case["kernel"]
        self.sim = SimRun(case["sched_seed"], LoopConfig(cap=400000, eager=case.get("eager", False)),
                          loop_cls=lambda rng, cfg: SimIOLoop(rng, cfg, kcfg))
        self.faults = self.sim.faults
        self.h = History()
        self.viol = []
        self.probes = {}
        self.nontrivial = False

    def v(self, rule, detail):
        if len(self.viol) < 8:
            c = self.case
            self.viol.append({"rule": "C18." + rule, "sig": "C18." + rule,
                              "detail": f"[{c['a']['kind']}<->{c['b']['kind']} buffers {c['cap_ab']}/{c['cap_ba']}] {detail} "
                                        f"(iteration={self.sim.loop.iterations if self.sim.loop else '?'})"})

    def bump(self, k):
        self.probes[k] = self.probes.get(k, 0) + 1

    async def make_stream(self, kind, sock):
        loop = self.sim.loop
        if kind == "unix":
            return A.UNIXSocketStream(sock), None, None
        if kind in ("unix_from_socket", "tcp_from_socket"):
            # the public constructors for an existing socket object (a fresh one is in blocking mode, like the ends of
            # socket.socketpair()): validation, switch to non-blocking mode, then the backend's wrapper
            sock.setblocking(True)
            cls = anyio.abc.UNIXSocketStream if kind == "unix_from_socket" else anyio.abc.SocketStream
            stream = await cls.from_socket(sock)
            return stream, getattr(stream, "_transport", None), getattr(stream, "_protocol", None)
        if kind == "tcp_wrapped":
            # anyio's own creation path for an existing socket object (SocketStream.from_socket ->
            # AsyncIOBackend.wrap_stream_socket -> loop.create_connection(sock=...)), unchanged
            stream = await A.AsyncIOBackend.wrap_stream_socket(sock)
            return stream, getattr(stream, "_transport", None), getattr(stream, "_protocol", None)
        proto = A.StreamProtocol()
        tr = selector_events._SelectorSocketTransport(loop, sock, proto)
        await sleep(0)
        await sleep(0)
        tr.pause_reading()      # what connect_tcp() does after creating the transport
        return A.SocketStream(tr, proto), tr, proto

    async def main(self):
        self.h.loop = loop = self.sim.loop
        c = self.case
        s1, s2 = loop.kern.pair(c["cap_ab"], c["cap_ba"])
        A_stream, A_tr, A_proto = await self.make_stream(c["a"]["kind"], s1)
        B_stream, B_tr, B_proto = await self.make_stream(c["b"]["kind"], s2)
        ends = {"a": dict(stream=A_stream, tr=A_tr, proto=A_proto, cfg=c["a"], sent=bytearray(), got=bytearray(), closed=False,
                          writer_done=False, end=None, tag=1),
                "b": dict(stream=B_stream, tr=B_tr, proto=B_proto, cfg=c["b"], sent=bytearray(), got=bytearray(), closed=False,
                          writer_done=False, end=None, tag=2)}
        self.ends = ends
        Cancelled = get_cancelled_exc_class()
        limit = {"a": c["cap_ba"], "b": c["cap_ab"]}

        def watch():
            # back-pressure on the receiving side: once the application has started reading, the protocol's
            # user-space queue may only grow while a receive() call is in progress (between calls the transport
            # must be paused, so that unread data stays in the bounded kernel buffer)
            for name, e in ends.items():
                if e["proto"] is not None and hasattr(e["proto"], "read_queue"):
                    q = sum(len(x) for x in e["proto"].read_queue)
                    last = e.get("queued", 0)
                    e["queued"] = q
                    if (q > last and e.get("in_receive") is None and not e.get("probe_receiving")
                            and e.get("receive_calls", 0) > 0 and not e["closed"]):
                        self.v("reader_not_paused", f"{name}: the protocol's read queue grew from {last} to {q} bytes while no "
                                                    f"receive() call was in progress (kernel buffer {limit[name]} bytes): the "
                                                    f"transport keeps reading, so the writer is no longer held back")
        loop.post_iteration.append(watch)

        async def writer(name):
            e = ends[name]
            cfg = e["cfg"]
            st = e["stream"]
            msgs = payload(e["tag"], cfg["msgs"])
            try:
                for i, m in enumerate(msgs):
                    p = cfg["wpause"][i % len(cfg["wpause"])]
                    if p:
                        await sleep(p)
                    e["inflight"] = m
                    await st.send(m)
                    e["sent"] += m
                    e["inflight"] = None
                    self.h.rec("sent", name, len(m))
                    if e["tr"] is not None and e["tr"].get_write_buffer_size() != 0:
                        self.v("backpressure", f"{name}: send() returned while {e['tr'].get_write_buffer_size()} bytes are still "
                                               f"buffered in user space")
                if cfg.get("wait_peer"):
                    peer = ends["b" if name == "a" else "a"]
                    t_idle = loop.time()
                    seen = len(peer["got"])
                    while len(peer["got"]) < len(e["sent"]) and peer["end"] is None and not peer["closed"]:
                        if len(peer["got"]) != seen:
                            seen = len(peer["got"])
                            t_idle = loop.time()
                        if loop.time() - t_idle > 60:
                            self.v("lost", f"{name}->{'b' if name == 'a' else 'a'}: the writer stayed connected and idle after its "
                                           f"last send(); the peer's reader has {len(peer['got'])} of the {len(e['sent'])} bytes "
                                           f"whose send() had completed and has made no progress for 60 virtual seconds")
                            break
                        await sleep(0.25)
                    else:
                        self.bump("peer_read_everything_while_writer_idle")
                if e["closed"]:
                    return          # the stream was closed by the close_while_busy prober meanwhile
                if cfg["end"] in ("eof", "eof_close"):
                    await st.send_eof()
                    self.h.rec("eof", name)
                    e["eof"] = True
                elif cfg["probe"] not in ("close_blocked_reader", "close_while_busy"):
                    # plain close: the writer closes the stream while the own reader may still be blocked in receive()
                    e["closed"] = True
                    e["closed_at"] = self.h.rec("close", name)[0]
                    e["closed_it"] = loop.iterations
                    e["blocked_at_close"] = e.get("in_receive") is not None
                    await st.aclose()
            except (BrokenResourceError, ClosedResourceError) as ex:
                e["send_err"] = type(ex).__name__
                self.h.rec("send_err", name, type(ex).__name__)
            finally:
                e["writer_done"] = True

        async def reader(name):
            e = ends[name]
            cfg = e["cfg"]
            st = e["stream"]
            k = 0
            retry = False
            try:
                while True:
                    p = 0 if retry else cfg["rpause"][k % len(cfg["rpause"])]
                    if p:
                        await sleep(p)
                    m = cfg["recv_sizes"][k % len(cfg["recv_sizes"])]
                    k += 1
                    e["in_receive"] = loop.iterations
                    e["receive_calls"] = e.get("receive_calls", 0) + 1
                    busy = False
                    d = None
                    try:
                        with anyio.move_on_after(None if retry else cfg["rtimeout"][k % len(cfg["rtimeout"])]) as rsc:
                            d = await st.receive(m)
                    except BusyResourceError:
                        # the probing task got there first: this caller is the second user and is refused
                        busy = True
                    finally:
                        e["in_receive"] = None
                        if e.get("closed_it") is not None and e.get("blocked_at_close"):
                            lat = loop.iterations - e["closed_it"]
                            e["blocked_at_close"] = False
                            if lat > CLOSE_LAT:
                                self.v("close_blocks", f"{name}: receive() came back {lat} loop cycles after the stream was closed locally")
                            else:
                                self.bump("reader_released_by_local_close")
                                self.nontrivial = True
                    if d is None and not busy:
                        # the receive was cancelled by its deadline: nothing may be lost, just try again
                        self.faults["cancel_receive"] += 1
                        self.nontrivial = True
                        retry = True
                        k -= 1
                        continue
                    retry = False
                    if busy:
                        self.bump("busy_refused")
                        self.nontrivial = True
                        await sleep(0.0625)      # let virtual time pass: the other user may be waiting for bytes in flight
                        continue
                    if not d or len(d) > m:
                        self.v("chunk", f"{name}: receive({m}) returned {len(d)} bytes")
                    e["got"] += d
                    self.h.rec("recv", name, len(d))
            except EndOfStream:
                e["end"] = "EOS"
                # the end of the stream is a state, not an event: asking again must give the same answer at once
                for _ in range(2):
                    again = None
                    with anyio.move_on_after(30):
                        try:
                            d = await st.receive(1)
                            again = f"returned {len(d)} byte(s)"
                        except EndOfStream:
                            again = "EOS"
                        except (ClosedResourceError, BrokenResourceError):
                            again = "EOS"        # closed locally / the connection broke meanwhile (our own send hit the closed peer)
                    if again != "EOS":
                        self.v("no_end", f"{name}: receive() after EndOfStream had been reported "
                                         f"{'blocked for 30 virtual seconds' if again is None else again}")
                        break
                else:
                    self.bump("end_of_stream_repeated")
            except BrokenResourceError:
                e["end"] = "BROKEN"
            except ClosedResourceError:
                e["end"] = "CLOSED"
            self.h.rec("recv_end", name, e["end"])

        async def prober(name):
            e = ends[name]
            cfg = e["cfg"]
            st = e["stream"]
            kind = cfg["probe"]
            if kind == "busy_recv":
                # the reader task is (or will be) parked in receive(); a second receive must be refused
                for _ in range(6):
                    await sleep(0)
                e["probe_receiving"] = True
                try:
                    d = await st.receive(1)
                except BusyResourceError:
                    self.bump("busy_refused")
                    self.nontrivial = True
                except (EndOfStream, BrokenResourceError, ClosedResourceError):
                    pass
                else:
                    e["got"] += d          # legitimately got there first: still part of the stream
                    self.h.rec("recv", name + "-probe", len(d))
                finally:
                    e["probe_receiving"] = False
            elif kind == "busy_send" and cfg["msgs"]:
                for _ in range(3):
                    await sleep(0)
                if e["writer_done"] or e.get("eof") or e["closed"]:
                    return           # sending after send_eof()/close is plain misuse, not a probe
                try:
                    await st.send(b"")
                except BusyResourceError:
                    self.bump("busy_refused")
                    self.nontrivial = True
                except (BrokenResourceError, ClosedResourceError, RuntimeError):
                    pass

        async def side(name):
            e = ends[name]
            cfg = e["cfg"]
            st = e["stream"]
            async with create_task_group() as tg:
                tg.start_soon(reader, name)
                tg.start_soon(writer, name)
                if cfg["probe"] in ("busy_recv", "busy_send"):
                    tg.start_soon(prober, name)
                if cfg["probe"] == "close_while_busy":
                    # close our end at a seeded time, whatever the reader and the writer are doing: a receive() waiting for
                    # data and a send() held back by the peer's full buffers must both come back
                    await sleep(cfg.get("close_after", 0.25))
                    if not e["closed"]:
                        e["closed"] = True
                        e["closed_at"] = self.h.rec("close", name)[0]
                        e["closed_it"] = loop.iterations
                        e["blocked_at_close"] = e.get("in_receive") is not None
                        if not e["writer_done"] and e.get("inflight") is not None:
                            self.faults["close_with_send_blocked"] += 1
                            if e["blocked_at_close"]:
                                self.faults["close_with_both_directions_blocked"] += 1
                        await st.aclose()
                if cfg["probe"] == "close_blocked_reader":
                    # close our end while our own reader may be blocked in receive(): it must come back promptly
                    while not e["writer_done"]:
                        await sleep(0.125)
                    if not e["closed"]:
                        e["closed"] = True
                        e["closed_at"] = self.h.rec("close", name)[0]
                        e["closed_it"] = loop.iterations
                        e["blocked_at_close"] = e.get("in_receive") is not None
                        await st.aclose()
            if cfg["end"] in ("close", "eof_close") or True:
                if not e["closed"]:
                    e["closed"] = True
                    e["closed_at"] = self.h.rec("close", name)[0]
                    await st.aclose()
            if cfg["probe"] == "use_after_close":
                it0 = loop.iterations
                try:
                    await st.send(b"x")
                except ClosedResourceError:
                    self.bump("send_after_close_refused")
                except BaseException as ex:
                    self.v("closed_send", f"{name}: send on a locally closed stream raised {type(ex).__name__} instead of ClosedResourceError")
                else:
                    self.v("closed_send", f"{name}: send on a locally closed stream succeeded")
                drained = bytearray()
                try:
                    while True:
                        drained += await st.receive(7)
                        if loop.iterations - it0 > 10000:
                            break
                except ClosedResourceError:
                    self.bump("receive_after_close_refused")
                except EndOfStream:
                    self.v("closed_receive", f"{name}: receive on a locally closed stream raised EndOfStream instead of ClosedResourceError")
                except BrokenResourceError:
                    self.v("closed_receive", f"{name}: receive on a locally closed stream raised BrokenResourceError")
                e["got"] += drained

        async with create_task_group() as tg:
            tg.start_soon(side, "a")
            tg.start_soon(side, "b")
        self.judge()

    def judge(self):
        ends = self.ends
        for src, dst in (("a", "b"), ("b", "a")):
            s, d = ends[src], ends[dst]
            sent, got = bytes(s["sent"]), bytes(d["got"])
            inflight = s.get("inflight") or b""
            full = sent + bytes(inflight)
            if not full.startswith(got):
                k = 0
                while k < min(len(full), len(got)) and full[k] == got[k]:
                    k += 1
                self.v("integrity", f"{src}->{dst}: received bytes diverge from the sent stream at offset {k} "
                                    f"(sent {len(sent)}, received {len(got)})")
                continue
            reader_closed_early = d["cfg"]["probe"] in ("close_blocked_reader", "close_while_busy")
            if d["end"] == "EOS" and len(got) < len(sent):
                self.v("lost", f"{src}->{dst}: the reader got EndOfStream after {len(got)} of {len(sent)} bytes whose send() had completed")
            if d["end"] == "EOS" and "send_err" not in s and len(got) != len(sent):
                self.v("lost", f"{src}->{dst}: {len(sent)} bytes sent, {len(got)} received before EndOfStream")
            if d["end"] is None and not reader_closed_early:
                self.v("no_end", f"{src}->{dst}: the reader never saw the end of the stream")
            if d["end"] == "BROKEN" and not s.get("send_err") and not ends[dst].get("send_err") and len(got) == len(sent):
                # our kernel stub never resets on its own; a Broken end needs a cause
                pass
            if len(sent) > 0:
                self.bump("direction_with_data")

    def execute(self):
        sim = self.sim
        sim.run(self.main)
        if sim.outcome == "deadlock":
            st = {n: (e["end"], e["writer_done"], len(e["sent"]), len(e["got"])) for n, e in getattr(self, "ends", {}).items()}
            self.v("deadlock", f"would block forever: {sim.error}; ends={st}")
        elif sim.outcome == "itercap":
            self.v("deadlock", f"iteration cap: {sim.error}")
        elif sim.outcome == "exc":
            import traceback
            self.v("error", "unexpected exception: " + "".join(traceback.format_exception(sim.error))[-1500:])
        loop = sim.loop
        c = self.case
        kern = getattr(loop, "kern", None)
        if kern is not None and kern.blocking_calls:
            fd, what = kern.blocking_calls[0]
            self.v("deadlock", f"{what}() had to wait on a socket that was left in blocking mode ({len(kern.blocking_calls)} such "
                               f"call(s)): with a real socket the call would not return and the whole event loop would freeze")
        blocked = self.faults.get("partial_write", 0) > 0
        return {"violations": self.viol, "digest": self.h.digest(), "faults": dict(self.faults),
                "nontrivial": self.nontrivial or blocked, "vtime": loop._vnow if loop else 0.0,
                "iters": loop.iterations if loop else 0, "steps": self.h.seq, "probes": self.probes,
                "cfg": [f"{c['a']['kind']}<->{c['b']['kind']}"], "history_text": self.h.text(100)}


def shrinks(case):
    for s in ("a", "b"):
        for i in range(len(case[s]["msgs"])):
            c = copy.deepcopy(case)
            del c[s]["msgs"][i]
            yield c
        for i, n in enumerate(case[s]["msgs"]):
            if n > 1:
                c = copy.deepcopy(case)
                c[s]["msgs"][i] = max(1, n // 4)
                yield c
        if case[s]["probe"]:
            c = copy.deepcopy(case)
            c[s]["probe"] = None
            yield c
        if any(case[s]["rpause"]) or any(case[s]["wpause"]):
            c = copy.deepcopy(case)
            c[s]["rpause"] = [0]
            c[s]["wpause"] = [0]
            yield c
    for k in ("short_read", "short_write", "eagain"):
        if case["kernel"][k]:
            c = copy.deepcopy(case)
            c["kernel"][k] = 0
            yield c
    if case["kernel"]["delays"] != [0]:
        c = copy.deepcopy(case)
        c["kernel"]["delays"] = [0]
        yield c


class SockCheck:
    prop = "C18"
    engine = "bytes-sockets"
    level = "exploration"
    chunk = 16
    components = {
        "real": ["anyio StreamProtocol + SocketStream on the real asyncio _SelectorSocketTransport (TCP-like end)",
                 "anyio UNIXSocketStream on the raw socket (UNIX-like end)", "anyio ResourceGuard, task groups"],
        "stub": ["the kernel: SimSocket pairs with bounded buffers, seeded short reads/writes, spurious EAGAIN, in-flight delay; "
                 "readiness polling and fd order (SimIOLoop)", "event loop and clock (SimLoop)"],
    }
    assumptions = [
        "real TCP loopback / AF_UNIX kernels and uvloop are not simulated (no seam); the kernel stub never drops or reorders bytes",
        "asyncio's selector transport is used as is; only the socket object underneath is simulated",
        "a locally closed stream must release its own blocked reader within %d loop cycles" % CLOSE_LAT,
    ]
    fault_kinds = ["cancel_receive", "short_read", "short_write", "partial_write", "eagain", "in_flight_delay", "fd_order", "timer_tie"]
    budgets = {"quick": (60000, 100), "thorough": (2_500_000, 1500)}
    rule_text = ("cases = {tcp-like, unix-like}^2 x kernel buffer sizes 1..4096 per direction x per side: 0-4/6 messages of "
                 "1..1000/5000 bytes with pauses, end by send_eof / close / both, receive sizes 1/3/11/100/65536 with reader pauses up "
                 "to 0.5 s (so the buffers fill and the writer blocks), optional probe (second concurrent sender/receiver, use after "
                 "local close, closing while the own reader is blocked) x kernel faults (short reads/writes p=0/0.2/0.5, spurious "
                 "EAGAIN, in-flight delays); distinct = SHA1 of the event history (sizes, ends); non-trivial = a write was only "
                 "partially accepted by the kernel (back-pressure engaged) or a probe fired")

    def bounds(self, tier):
        return {"kernel_buffer_bytes": [1, 4096], "message_bytes": [1, 5000 if tier == "thorough" else 1000],
                "messages_per_side": [0, 6 if tier == "thorough" else 4], "max_bytes": [1, 65536]}

    def gen_case(self, seed, tier):
        return gen_case(seed, tier)

    def run_case(self, case):
        return SockRun(case).execute()

    def shrinks(self, case):
        return shrinks(case)
