"""Engine FUNC/lru_cache (C20).

Sequential phase: a seeded history of calls / cache_clear on an async function wrapped with
anyio.functools.lru_cache is replayed on a synchronous twin wrapped with functools.lru_cache; results and
cache_info() (hits, misses, currsize) must agree after every call (exact LRU oracle; ttl=None).

Concurrent phase: up to 4 callers in flight over <= 4 keys; the wrapped function suspends for seeded
virtual durations, may fail with a unique exception, callers may be cancelled at seeded instants; maxsize
None/0/1/2/3, typed, ttl, always_checkpoint.  Oracles: every returned value was produced by an execution
with equal arguments; executions in flight per key <= 1; callers see only that value, the wrapped
function's own exception or their own cancellation (anything else is an internal error); a caller of
another key is not blocked by a parked execution; results retained <= maxsize (behavioural probe at
quiescence); with ttl a served value is younger than ttl.
"""
from __future__ import annotations

import asyncio
import copy
import functools
import random
from collections import Counter

from simkit.harness import History, LoopConfig, SimRun, anyio

from anyio import CancelScope, create_task_group, current_time, get_cancelled_exc_class, sleep
from anyio.functools import cache as _anyio_cache, lru_cache as _anyio_lru_cache


def lru_cache(*, maxsize, typed, ttl, always_checkpoint):
    """The decorator under test, through whichever of its spellings means these parameters: cache(f) is
    lru_cache(maxsize=None), bare lru_cache(f) is lru_cache(maxsize=128); otherwise the keyword form."""
    if not typed and ttl is None and not always_checkpoint:
        if maxsize is None:
            return _anyio_cache
        if maxsize == 128:
            return _anyio_lru_cache
    return _anyio_lru_cache(maxsize=maxsize, typed=typed, ttl=ttl, always_checkpoint=always_checkpoint)

DUR = [0, 0, 0.125, 0.25, 0.5]
KEYS = [1, 2, 3, 4]


class FalsyResult(tuple):
    """A result that is false in a boolean context (a cached result must be recognised by its presence, not its truth)."""

    def __bool__(self):
        return False


def shape(k, n):
    """The result of execution number n for key k: usually a tuple embedding n; every fourth execution returns None
    and every fourth a falsy object - both are results like any other and must be cached."""
    if n % 4 == 3:
        return None
    if n % 4 == 1:
        return FalsyResult((k, type(k).__name__, n))
    return (k, type(k).__name__, n)


class Fail(Exception):
    pass


class BaseFail(BaseException):
    """raised by the wrapped function: not an Exception (like GeneratorExit or an application-level abort)"""


class FalsyFail(Fail):
    """false in a boolean context (see engines/sc.py FalsyBoom)"""

    def __bool__(self):
        return False



def gen_case(seed, tier, prop="C20"):
    rng = random.Random(seed)
    big = tier == "thorough"
    if rng.random() < 0.3:
        n = rng.randint(3, 40 if big else 24)
        typed = rng.random() < 0.4
        seq_ttl = rng.choice([None, None, 1, 2, 0, 0.5])      # 0: every entry has expired as soon as it is stored
        ops = []
        for _ in range(n):
            r = rng.random()
            if seq_ttl is not None and r < 0.25:
                ops.append(["sleep", rng.choice([0.25, 0.5, 1.0, 2.0])])
            elif r < 0.9:
                k = rng.choice(KEYS + ([1.0, 2.0] if typed else []))
                fails = rng.random() < 0.15
                if fails and rng.random() < 0.25:
                    fails = "base"       # the wrapped function raises a BaseException that is not an Exception
                ops.append(["call", k, fails, rng.random() < 0.15])   # key, fails, as keyword
            else:
                ops.append(["clear"])
        return {"engine": "lru", "type": "seq", "maxsize": rng.choice([None, 0, 1, 2, 3, 128]), "typed": typed,
                "always_checkpoint": rng.random() < 0.3, "ops": ops, "eager": rng.random() < 0.3, "ttl": seq_ttl,
                "sched_seed": rng.getrandbits(32)}
    ncallers = rng.randint(1, 5 if big else 4)
    fail_p = rng.choice([0, 0, 0.2, 0.4])
    callers = []
    nexec = [0]
    for _ in range(ncallers):
        prog = []
        for _ in range(rng.randint(1, 6 if big else 4)):
            prog.append({"pre": rng.choice(DUR), "key": rng.choice(KEYS[: rng.randint(1, 4)]),
                         "cancel_after": rng.choice([None, None, None, 0, 0.125, 0.25])})
        callers.append(prog)
    # behaviour of the n-th execution of the wrapped function (shared script, consumed in execution order)
    script = [{"dur": rng.choice(DUR), "fail": rng.random() < fail_p} for _ in range(64)]
    loop = LoopConfig(eager=rng.random() < 0.3, cap=20000, p_late=rng.choice([0, 0, 0.2]), p_stall=0).to_json()
    return {"engine": "lru", "type": "conc", "maxsize": rng.choice([None, 0, 1, 1, 2, 3]), "typed": rng.random() < 0.3,
            "ttl": rng.choice([None, None, None, 1, 2, 0]), "always_checkpoint": rng.random() < 0.3, "callers": callers,
            "script": script, "loop": loop, "sched_seed": rng.getrandbits(32)}


class RefLRU:
    """Reference for sequential histories with ttl: plain LRU over finished results; an expired result is
    recomputed; the recomputed (or new) result is the most recently used one."""

    def __init__(self, maxsize, typed, ttl, counter, plan, clock):
        from collections import OrderedDict
        self.d = OrderedDict()
        self.maxsize, self.typed, self.ttl, self.counter, self.plan, self.clock = maxsize, typed, ttl, counter, plan, clock

    def cache_clear(self):
        self.d.clear()

    def cache_info(self):
        return None

    def __call__(self, *args, **kw):
        k = args[0] if args else kw["k"]
        key = ("kw" if kw else "pos", k, type(k) if self.typed else None)
        now = self.clock()
        if self.maxsize != 0 and key in self.d:
            val, exp = self.d[key]
            if now < exp:
                self.d.move_to_end(key)
                return val
            del self.d[key]
        self.counter[0] += 1
        if self.plan["fail"]:
            raise BaseFail(k) if self.plan["fail"] == "base" else (FalsyFail if self.counter[0] % 2 else Fail)(k)
        val = shape(k, self.counter[0])
        if self.maxsize == 0:
            return val
        if self.maxsize is not None:
            while len(self.d) >= self.maxsize:
                self.d.popitem(last=False)
        self.d[key] = (val, now + self.ttl)
        return val


class SeqRun:
    def __init__(self, case):
        self.case = case
        self.sim = SimRun(case["sched_seed"], LoopConfig(cap=20000, eager=case.get("eager", False)))
        self.viol = []
        self.h = History()

    def v(self, rule, detail, sig=None):
        if len(self.viol) < 8:
            self.viol.append({"rule": "C20." + rule, "sig": sig or "C20." + rule,
                              "detail": f"[sequential maxsize={self.case['maxsize']} typed={self.case['typed']}] {detail}"})

    async def main(self):
        self.h.loop = self.sim.loop
        c = self.case
        na = [0]
        ns = [0]
        plan = {}

        ttl = c.get("ttl")

        @lru_cache(maxsize=c["maxsize"], typed=c["typed"], always_checkpoint=c["always_checkpoint"], ttl=ttl)
        async def af(k=None):
            na[0] += 1
            await sleep(0)
            if plan["fail"]:
                raise BaseFail(k) if plan["fail"] == "base" else (FalsyFail if na[0] % 2 else Fail)(k)
            return shape(k, na[0])

        if ttl is None:
            @functools.lru_cache(maxsize=c["maxsize"], typed=c["typed"])
            def sf(k=None):
                ns[0] += 1
                if plan["fail"]:
                    raise BaseFail(k) if plan["fail"] == "base" else (FalsyFail if ns[0] % 2 else Fail)(k)
                return shape(k, ns[0])
        else:
            sf = RefLRU(c["maxsize"], c["typed"], ttl, ns, plan, lambda: anyio.current_time())

        for i, op in enumerate(c["ops"]):
            if op[0] == "clear":
                af.cache_clear()
                sf.cache_clear()
                self.h.rec("clear")
            elif op[0] == "sleep":
                await sleep(op[1])
                self.h.rec("sleep", op[1])
                continue
            else:
                _, k, fails, kw = op
                plan["fail"] = fails
                try:
                    exp = ("ok", sf(k=k) if kw else sf(k))
                except (Fail, BaseFail) as e:
                    exp = ("fail", type(e).__name__.replace("Falsy", ""), e.args)
                try:
                    got = ("ok", await (af(k=k) if kw else af(k)))
                except (Fail, BaseFail) as e:
                    got = ("fail", type(e).__name__.replace("Falsy", ""), e.args)
                except Exception as e:
                    got = ("error", repr(e))
                self.h.rec("call", repr(k), got[0])
                if got != exp:
                    self.v("seq_result", f"call #{i} f({'k=' if kw else ''}{k!r}): anyio gives {got}, the "
                                         f"{'functools.lru_cache twin' if ttl is None else 'reference LRU+ttl model'} {exp}; "
                                         f"ttl={ttl}; history {c['ops'][:i + 1]}")
                    return
            ai = af.cache_info()
            si = sf.cache_info()
            # which calls hit and which recompute is already compared through the execution counter embedded in
            # the results; of cache_info() only the number of retained results is part of the statement
            if ttl is None and (ai.currsize, ai.maxsize) != (si.currsize, si.maxsize):
                self.v("seq_currsize", f"after op #{i} {op}: cache_info() {ai} reports a different number of retained results "
                                       f"than the functools.lru_cache twin {si}; history {c['ops'][:i + 1]}",
                       sig="C20.seq_currsize:" + ("after-failure" if any(o[0] == "call" and o[2] for o in c["ops"][:i + 1]) else "plain"))
                return

    def execute(self):
        sim = self.sim
        sim.run(self.main)
        if sim.outcome != "ok":
            self.v("error", f"{sim.outcome}: {sim.error!r}")
        loop = sim.loop
        return {"violations": self.viol, "digest": self.h.digest(("seq", self.case["maxsize"], self.case["typed"])), "faults": {},
                "nontrivial": len(self.case["ops"]) > 3, "vtime": loop._vnow if loop else 0.0,
                "iters": loop.iterations if loop else 0, "steps": self.h.seq, "probes": {"sequential_histories": 1},
                "cfg": ["seq:maxsize=%s" % self.case["maxsize"]], "history_text": self.h.text(80)}


class ConcRun:
    def __init__(self, case):
        self.case = case
        self.sim = SimRun(case["sched_seed"], LoopConfig.from_json(case["loop"]))
        self.faults = self.sim.faults
        self.viol = []
        self.h = History()
        self.probes = Counter()
        self.nontrivial = False

    def v(self, rule, detail, sig=None):
        if len(self.viol) < 8:
            c = self.case
            self.viol.append({"rule": "C20." + rule, "sig": sig or "C20." + rule,
                              "detail": f"[maxsize={c['maxsize']} ttl={c['ttl']} typed={c['typed']}] {detail} (seq={self.h.seq})"})

    async def main(self):
        self.h.loop = loop = self.sim.loop
        c = self.case
        maxsize, ttl = c["maxsize"], c["ttl"]
        inflight = Counter()
        produced = {}          # value -> (key, completion time)
        execs = [0]
        script = list(c["script"])       # never mutate the case: it is the replay artefact
        run = self
        parked = {}            # key -> number of executions currently suspended

        @lru_cache(maxsize=maxsize, typed=c["typed"], ttl=ttl, always_checkpoint=c["always_checkpoint"])
        async def f(key):
            n = execs[0]
            execs[0] += 1
            beh = script[n % len(script)]
            inflight[key] += 1
            run.h.rec("exec_begin", key, n)
            if inflight[key] > 1:
                run.v("double_flight", f"the wrapped function runs {inflight[key]} times concurrently for key {key}",
                      sig="C20.double_flight:maxsize=" + ("finite" if maxsize else str(maxsize)))
            if sum(inflight.values()) > 1:
                run.probes["executions_of_different_keys_overlap"] += 1
            try:
                await sleep(beh["dur"])
                if beh["fail"]:
                    run.faults["wrapped_fn_fails"] += 1
                    raise (FalsyFail if n % 2 else Fail)(key, n)
                val = (key, n)
                produced[val] = (key, current_time())
                return val
            finally:
                inflight[key] -= 1
                run.h.rec("exec_end", key, n)

        self.f = f
        Cancelled = get_cancelled_exc_class()

        async def caller(ci, prog):
            for st in prog:
                await sleep(st["pre"])
                key = st["key"]
                t_call = current_time()
                others_in_flight = sum(v for k, v in inflight.items() if k != key)
                own_in_flight = inflight[key]
                it0 = loop.iterations
                self.h.rec("call", ci, key)
                with CancelScope() as sc:
                    if st["cancel_after"] is not None:
                        loop.call_later(st["cancel_after"], sc.cancel)
                    try:
                        val = await f(key)
                    except Fail as e:
                        self.h.rec("ret", ci, key, "fail")
                        if e.args[0] != key:
                            self.v("foreign_failure", f"caller of key {key} got the failure of an execution for key {e.args[0]}")
                        continue
                    except Cancelled:
                        self.h.rec("ret", ci, key, "cancelled")
                        self.faults["caller_cancelled"] += 1
                        self.nontrivial = True
                        raise
                    except BaseException as e:
                        self.h.rec("ret", ci, key, "error", type(e).__name__)
                        self.v("internal_error", f"caller of key {key} got {type(e).__name__}: {e!r}, which is neither the "
                                                 f"wrapped function's result nor its exception",
                               sig="C20.internal_error:" + type(e).__name__ + (":finite-maxsize" if maxsize else ""))
                        continue
                    self.h.rec("ret", ci, key, "ok", val)
                    if val not in produced or val[0] != key:
                        self.v("wrong_value", f"caller of key {key} got {val!r}, which no execution for that key produced")
                        continue
                    if own_in_flight:
                        self.probes["joined_execution_in_flight"] += 1
                    if ttl is not None and produced[val][1] < t_call and t_call - produced[val][1] >= ttl:
                        self.v("stale", f"caller of key {key} at t={t_call} was served a value completed at t={produced[val][1]} "
                                        f"(ttl={ttl})")
                    if others_in_flight and not own_in_flight and produced[val][1] >= t_call:
                        self.probes["other_key_not_blocked"] += 1

        async with create_task_group() as tg:
            for ci, prog in enumerate(c["callers"]):
                tg.start_soon(caller, ci, prog, name=f"caller{ci}")
        # retention probe at quiescence (maxsize finite, no ttl): call every key once; calls served without an
        # execution are retained results
        info = f.cache_info()
        if maxsize is not None and info.currsize > max(maxsize, 0):
            self.v("currsize", f"cache_info().currsize={info.currsize} exceeds maxsize={maxsize} at quiescence",
                   sig="C20.currsize:finite-maxsize")
        if maxsize is not None and ttl is None:
            script_ok = [{"dur": 0, "fail": False}]
            script[:] = script_ok
            hits = 0
            for key in KEYS:
                before = execs[0]
                await f(key)
                if execs[0] == before:
                    hits += 1
            if hits > maxsize:
                self.v("retention", f"{hits} results are retained at quiescence with maxsize={maxsize}",
                       sig="C20.retention:finite-maxsize")
            else:
                self.probes["retention_probe_ok"] += 1

    def execute(self):
        sim = self.sim
        sim.run(self.main)
        if sim.outcome in ("deadlock", "itercap"):
            self.v("stuck", f"{sim.outcome}: {sim.error}")
        elif sim.outcome == "exc":
            import traceback
            self.v("error", "unexpected exception: " + "".join(traceback.format_exception(sim.error))[-1500:])
        loop = sim.loop
        c = self.case
        return {"violations": self.viol, "digest": self.h.digest(("conc", c["maxsize"], c["ttl"], c["typed"])),
                "faults": dict(self.faults), "nontrivial": self.nontrivial or self.probes.get("joined_execution_in_flight", 0) > 0,
                "vtime": loop._vnow if loop else 0.0, "iters": loop.iterations if loop else 0, "steps": self.h.seq,
                "probes": dict(self.probes), "cfg": ["conc:maxsize=%s,ttl=%s" % (c["maxsize"], c["ttl"])],
                "history_text": self.h.text(120)}


def shrinks(case):
    if case["type"] == "seq":
        for i in range(len(case["ops"])):
            c = copy.deepcopy(case)
            del c["ops"][i]
            yield c
        return
    for i in range(len(case["callers"])):
        if len(case["callers"]) > 1:
            c = copy.deepcopy(case)
            del c["callers"][i]
            yield c
    for i, prog in enumerate(case["callers"]):
        for j in range(len(prog)):
            if len(prog) > 1:
                c = copy.deepcopy(case)
                del c["callers"][i][j]
                yield c
    for i, prog in enumerate(case["callers"]):
        for j, st in enumerate(prog):
            if st["cancel_after"] is not None:
                c = copy.deepcopy(case)
                c["callers"][i][j]["cancel_after"] = None
                yield c
            if st["pre"]:
                c = copy.deepcopy(case)
                c["callers"][i][j]["pre"] = 0
                yield c
    for key, val in (("typed", False), ("always_checkpoint", False), ("ttl", None)):
        if case.get(key):
            c = copy.deepcopy(case)
            c[key] = val
            yield c
    for key, val in (("eager", False), ("p_late", 0)):
        if case["loop"].get(key):
            c = copy.deepcopy(case)
            c["loop"][key] = val
            yield c


class LruCheck:
    prop = "C20"
    engine = "func-lru"
    level = "exploration"
    components = {
        "real": ["anyio.functools.lru_cache / cache (AsyncLRUCacheWrapper), anyio Lock, CancelScope, TaskGroup, sleep"],
        "stub": ["event loop and clock (SimLoop: virtual time, seeded timer ties and late wake-ups)",
                 "sequential oracle: CPython functools.lru_cache on a synchronous twin"],
    }
    assumptions = [
        "asyncio backend only",
        "retention is measured behaviourally at quiescence (re-calling every key once; calls served without an execution are "
        "retained results)",
        "the sequential twin comparison covers ttl=None (functools.lru_cache has no ttl)",
    ]
    fault_kinds = ["wrapped_fn_fails", "caller_cancelled", "timer_tie", "late_wakeup"]
    budgets = {"quick": (250_000, 90), "thorough": (10_000_000, 1500)}
    rule_text = ("cases = 30% sequential histories (3-24/40 calls over keys 1,2,3,4,1.0,2.0 positional or keyword, failures, "
                 "cache_clear; maxsize None/0/1/2/3/128, typed, always_checkpoint) compared call by call with functools.lru_cache; "
                 "70% concurrent runs (1-4/5 callers x 1-4/6 calls, per-execution seeded duration and failure, caller cancel "
                 "timers, maxsize None/0/1/2/3, typed, ttl None/1/2, always_checkpoint, stock/eager, late wake-ups); distinct = "
                 "SHA1 of the event history; non-trivial = a caller joined an execution in flight or a caller was cancelled "
                 "(concurrent), or a sequential history with more than 3 operations")

    def bounds(self, tier):
        big = tier == "thorough"
        return {"keys": KEYS, "callers": [1, 5 if big else 4], "calls_per_caller": [1, 6 if big else 4],
                "maxsize": ["None", 0, 1, 2, 3], "ttl": ["None", 0, 0.5, 1, 2], "sequential_history_length": [3, 40 if big else 24]}

    def gen_case(self, seed, tier):
        return gen_case(seed, tier)

    def run_case(self, case):
        return (SeqRun if case["type"] == "seq" else ConcRun)(case).execute()

    def shrinks(self, case):
        return shrinks(case)
