"""Engine BYTES/TLS (C17): real ssl + real TLSStream on both ends of an in-memory Wire pair.

The schedule is the transport: per direction seeded fragment sizes (1 byte .. everything, i.e. full
coalescing), delivery delays, and a *cut point* - the transport is truncated after a seeded number of
ciphertext bytes (during the handshake, mid-record, between records, just before / inside the closing
close_notify) - or a flipped bit.  Workloads: simplex (client sends, server reads to the end) and full
duplex (both directions at once, both ends with a sender and a receiver task).

Oracles per direction: bytes read are a prefix of the bytes written (equal on a clean run); receive never
returns more than max_bytes nor an empty chunk; a direction that ended with the peer's closing handshake
ends in EndOfStream; a truncated direction ends in BrokenResourceError when standard_compatible and in
EndOfStream otherwise - never the other way round; with a flipped bit: never wrong plaintext.
"""
from __future__ import annotations

import copy
import logging
import os
import random
import ssl

from simkit.harness import History, LoopConfig, SimRun, anyio

from anyio import (BrokenResourceError, ClosedResourceError, EndOfStream, Event, create_task_group,
                   get_cancelled_exc_class, move_on_after, sleep)
from anyio.abc import ByteStream
from anyio.streams.tls import TLSConnectable, TLSListener, TLSStream

logging.getLogger("anyio.streams.tls").addHandler(logging.NullHandler())
logging.getLogger("anyio.streams.tls").propagate = False       # TLSListener logs failed handshakes; they are injected here


class _OneShotConnectable:
    """Stands in for a ByteStreamConnectable: connect() returns the prepared wire end."""

    def __init__(self, end):
        self.end = end

    async def connect(self):
        return self.end


class _OneShotListener:
    """Stands in for a Listener that accepts exactly one connection: the prepared wire end."""

    def __init__(self, end):
        self.end = end

    async def serve(self, handler, task_group=None):
        await handler(self.end)

    async def aclose(self):
        pass

    @property
    def extra_attributes(self):
        return {}

FIX = os.path.join(os.path.dirname(os.path.dirname(os.path.abspath(__file__))), "fixtures")
_CTX = {}


def contexts(ver):
    if ver not in _CTX:
        v = ssl.TLSVersion.TLSv1_2 if ver == "1.2" else ssl.TLSVersion.TLSv1_3
        s = ssl.create_default_context(ssl.Purpose.CLIENT_AUTH)
        s.options &= ~ssl.OP_IGNORE_UNEXPECTED_EOF
        s.load_cert_chain(os.path.join(FIX, "server.pem"))
        c = ssl.create_default_context(ssl.Purpose.SERVER_AUTH, cafile=os.path.join(FIX, "ca.pem"))
        c.options &= ~ssl.OP_IGNORE_UNEXPECTED_EOF
        for x in (s, c):
            x.minimum_version = x.maximum_version = v
        _CTX[ver] = (s, c)
    return _CTX[ver]


class Pipe:
    """One direction of the wire."""

    def __init__(self, frags, delays, cut, flip, stats):
        self.q = bytearray()
        self.eof = False
        self.ev = None
        self.frags = frags
        self.delays = delays
        self.cut = cut            # total ciphertext bytes after which the transport ends (None = never)
        self.flip = flip          # (byte offset, bit) to corrupt, or None
        self.sent = 0
        self.delivered = 0
        self.i = 0
        self.stats = stats
        self.truncated = False

    def wake(self):
        if self.ev is not None:
            self.ev.set()

    def put(self, item):
        item = bytearray(item)
        if self.truncated:
            self.sent += len(item)
            return
        if self.flip is not None and self.sent <= self.flip[0] < self.sent + len(item):
            item[self.flip[0] - self.sent] ^= 1 << self.flip[1]
            self.stats["bitflip"] += 1
        if self.cut is not None and self.sent + len(item) > self.cut:
            keep = max(0, self.cut - self.sent)
            self.q += item[:keep]
            self.sent += len(item)
            self.truncated = True
            self.eof = True
            self.stats["truncate"] += 1
            self.wake()
            return
        self.sent += len(item)
        self.q += item
        self.wake()

    def close(self):
        if not self.eof:
            self.eof = True
            if self.cut is not None and self.cut <= self.sent and not self.truncated:
                self.truncated = self.cut < self.sent
            self.wake()


class WireEnd(ByteStream):
    def __init__(self, rx, tx):
        self.rx = rx
        self.tx = tx
        self.closed = False

    async def send(self, item):
        if self.closed:
            raise ClosedResourceError
        self.tx.put(item)          # enqueue synchronously: concurrent senders keep their order
        await sleep(0)

    async def receive(self, max_bytes=65536):
        rx = self.rx
        d = rx.delays[rx.i % len(rx.delays)]
        if d:
            await sleep(d)
        else:
            await sleep(0)
        while not rx.q:
            if self.closed:
                raise ClosedResourceError
            if rx.eof:
                rx.stats["peer_eof"] += 1
                raise EndOfStream
            rx.ev = Event()
            await rx.ev.wait()
        k = rx.frags[rx.i % len(rx.frags)]
        rx.i += 1
        n = min(k, len(rx.q), max_bytes)
        if n < len(rx.q):
            rx.stats["fragment"] += 1
        elif n > 1:
            rx.stats["coalesce"] += 1
        out = bytes(rx.q[:n])
        del rx.q[:n]
        rx.delivered += n
        return out

    async def send_eof(self):
        self.tx.close()

    async def aclose(self):
        self.closed = True
        self.tx.close()
        self.rx.wake()


def gen_case(seed, tier, prop="C17"):
    rng = random.Random(seed)
    big = tier == "thorough"
    # 70000: one send() produces more than 64 KiB of ciphertext (five TLS records) in a single flush
    sizes = [0, 1, 5, 100, 3000, 16384, 17000, 40000, 70000, 140000] if big else [0, 1, 5, 100, 3000, 17000, 70000]

    def msgs():
        return [rng.choice(sizes) for _ in range(rng.randint(0, 4 if big else 3))]

    def frags():
        style = rng.random()
        if style < 0.25:
            return [65536]
        if style < 0.4:
            return [1]
        return [rng.choice([1, 2, 3, 5, 17, 100, 1000, 65536]) for _ in range(rng.randint(1, 5))]

    duplex = rng.random() < 0.4
    c2s = msgs() or [1]
    s2c = msgs() if duplex else []
    total = sum(c2s) + sum(s2c)
    f1, f2 = frags(), frags()
    if total > 20000:
        floor = 100 if total < 60000 else 1000
        f1 = [max(f, floor) for f in f1]
        f2 = [max(f, floor) for f in f2]
    fault = rng.choice(["none", "none", "cut", "cut", "cut", "flip"])
    cut = None
    flip = None
    if fault == "cut":
        cut = {"dir": rng.choice(["c2s", "s2c"]) if duplex else rng.choice(["c2s", "c2s", "s2c"]),
               "how": rng.choice(["frac", "frac", "minus", "minus1", "handshake"]), "frac": rng.random(), "minus": rng.randint(1, 60)}
    elif fault == "flip":
        flip = {"dir": rng.choice(["c2s", "s2c"]), "frac": rng.random(), "bit": rng.randrange(8)}
    return {"engine": "tls", "prop": "C17", "ver": rng.choice(["1.2", "1.3"]), "std": rng.random() < 0.65, "duplex": duplex,
            "c2s": c2s, "s2c": s2c, "recv_sizes": [rng.choice([1, 7, 100, 65536]) for _ in range(3)],
            "frags": {"c2s": f1, "s2c": f2},
            "delays": {"c2s": [rng.choice([0, 0, 0.125]) for _ in range(3)], "s2c": [rng.choice([0, 0, 0.125]) for _ in range(3)]},
            "cut": cut, "flip": flip, "eager": rng.random() < 0.2, "sched_seed": rng.getrandbits(32),
            # the writer stays idle (no close, no further send) until the peer has read everything it was sent
            "wait_ack": rng.random() < 0.5,
            "rtimeouts": rng.choice([[None], [None], [None, 0, None], [0, 0.0625, None, 0.125]]),
            "via": {"client": rng.choice(["wrap", "wrap", "connectable"]), "server": rng.choice(["wrap", "wrap", "listener"])}}


def payload(direction, sizes):
    out = []
    base = 65 if direction == "c2s" else 97
    for i, n in enumerate(sizes):
        out.append(bytes((base + (i + j) % 26) for j in range(min(n, 26))) * (n // 26 + 1))
        out[-1] = out[-1][:n]
    return out


class TLSRun:
    def __init__(self, case):
        self.case = case
        self.viol = []
        self.h = History()
        self.faults = None
        self.nontrivial = False
        self.vtime = 0.0
        self.iters = 0

    def v(self, rule, detail):
        if len(self.viol) < 8:
            c = self.case
            self.viol.append({"rule": "C17." + rule, "sig": "C17." + rule,
                              "detail": f"[TLS {c['ver']} standard_compatible={c['std']} duplex={c['duplex']} cut={c.get('cut_abs')} "
                                        f"flip={c.get('flip_abs')}] {detail}"})

    async def exchange(self, cuts, flips, res, record):
        c = self.case
        stats = self.faults
        pipes = {d: Pipe(c["frags"][d], c["delays"][d], cuts.get(d), flips.get(d), stats) for d in ("c2s", "s2c")}
        ce = WireEnd(pipes["s2c"], pipes["c2s"])
        se = WireEnd(pipes["c2s"], pipes["s2c"])
        sctx, cctx = contexts(c["ver"])
        std = c["std"]
        sent = {"c2s": b"".join(payload("c2s", c["c2s"])), "s2c": b"".join(payload("s2c", c["s2c"]))}
        rs = c["recv_sizes"]
        rtimeouts = c.get("rtimeouts") or [None]
        if sum(c["c2s"]) + sum(c["s2c"]) > 20000:
            rs = [max(m, 100) for m in rs]
        got_all = {"c2s": Event(), "s2c": Event()}
        Cancelled = get_cancelled_exc_class()

        async def reader(name, stream, direction, expect_len, to_end):
            got = bytearray()
            k = 0
            end = None
            if expect_len == 0:
                got_all[direction].set()
            try:
                while to_end or len(got) < expect_len:
                    m = rs[k % len(rs)]
                    k += 1
                    # receive() under a deadline (a seeded subset of the calls): a receive that is cancelled must not
                    # have taken anything out of the stream - the retry continues exactly where the stream was
                    tmo = rtimeouts[k % len(rtimeouts)] if len(got) < expect_len else None
                    d = None
                    while d is None:
                        with move_on_after(tmo) as rsc:
                            d = await stream.receive(m)
                        if d is None:
                            stats["cancel_receive"] += 1
                            tmo = None if stats["cancel_receive"] % 3 == 0 else tmo
                    if not d or len(d) > m:
                        self.v("chunk", f"{name}: receive({m}) returned {len(d)} bytes")
                    got += d
                    if len(got) >= expect_len:
                        got_all[direction].set()
                    if record:
                        self.h.rec("recv", name, len(d))
            except (EndOfStream, BrokenResourceError) as first:
                end = "EOS" if isinstance(first, EndOfStream) else "BROKEN"
                # how the stream ended is a state: asking again must give the same answer (in particular a truncation that
                # has been reported must neither turn into a clean end nor into a raw ssl error)
                again = []
                for _ in range(2):
                    try:
                        await stream.receive(1)
                        again.append("DATA")
                    except EndOfStream:
                        again.append("EOS")
                    except BrokenResourceError:
                        again.append("BROKEN")
                    except Cancelled:
                        raise
                    except BaseException as e:
                        again.append(type(e).__name__)
                res[direction + "_again"] = again
            except Cancelled:
                raise
            except ssl.SSLError as e:
                end = "SSLERROR:" + type(e).__name__
            except BaseException as e:
                end = "OTHER:" + type(e).__name__
            got_all[direction].set()
            res[direction] = {"got": bytes(got), "end": end}

        async def side(name, end_, wrap_kw, out_dir, in_dir, first_closer):
            # three creation paths: TLSStream.wrap(), TLSConnectable.connect() (client), TLSListener.serve() (server)
            via = c.get("via", {}).get(name, "wrap")
            if via == "listener":
                called = []

                async def handler(stream):
                    called.append(1)
                    await after_wrap(name, end_, stream, out_dir, in_dir, first_closer)
                try:
                    await TLSListener(_OneShotListener(end_), wrap_kw["ssl_context"], standard_compatible=std,
                                      handshake_timeout=1e6).serve(handler)      # (1-byte fragments with delays: hours of virtual time)
                except Cancelled:
                    raise
                except BaseException as e:
                    res[name + "_wrap"] = type(e).__name__
                if not called:
                    res.setdefault(name + "_wrap", "handshake failed inside TLSListener")
                    got_all[in_dir].set()
                    await end_.aclose()
                return
            try:
                if via == "connectable":
                    stream = await TLSConnectable(_OneShotConnectable(end_), hostname=wrap_kw["hostname"],
                                                  ssl_context=wrap_kw["ssl_context"], standard_compatible=std).connect()
                else:
                    stream = await TLSStream.wrap(end_, standard_compatible=std, **wrap_kw)
            except Cancelled:
                raise
            except BaseException as e:
                res[name + "_wrap"] = type(e).__name__
                got_all[in_dir].set()       # nobody will ever read that direction
                await end_.aclose()
                return
            await after_wrap(name, end_, stream, out_dir, in_dir, first_closer)

        async def after_wrap(name, end_, stream, out_dir, in_dir, first_closer):
            if record:
                self.h.rec("handshake", name)
            duplex = c["duplex"]
            msgs = payload(out_dir, c[out_dir])
            try:
                async with create_task_group() as tg:
                    if duplex or name == "server":
                        # in duplex mode the expected length is known to the reader; the side that closes second
                        # keeps reading to observe how the stream ends
                        to_end = not first_closer
                        tg.start_soon(reader, name, stream, in_dir, len(sent[in_dir]), to_end)
                    for m in msgs:
                        try:
                            await stream.send(m)
                        except Cancelled:
                            raise
                        except BaseException as e:
                            res[name + "_send_err"] = type(e).__name__
                            break
                    else:
                        if c.get("wait_ack") and c[out_dir] and (duplex or name == "client"):
                            # stay idle until the peer's reader has everything (or has ended): nothing but the send()
                            # calls themselves may be needed to get the bytes across
                            await got_all[out_dir].wait()
            finally:
                got_all[in_dir].set()
                try:
                    await stream.aclose()
                except Cancelled:
                    raise
                except BaseException as e:
                    res[name + "_close"] = type(e).__name__
                    await end_.aclose()

        with move_on_after(1e7) as guard:
            async with create_task_group() as tg:
                tg.start_soon(side, "server", se, dict(server_side=True, ssl_context=sctx), "s2c", "c2s", False)
                tg.start_soon(side, "client", ce, dict(hostname="localhost", ssl_context=cctx), "c2s", "s2c", True)
        res["hung"] = guard.cancelled_caught
        res["total"] = {d: pipes[d].sent for d in pipes}
        res["truncated"] = {d: pipes[d].truncated for d in pipes}
        res["sent"] = sent

    def run_one(self, cuts, flips, record):
        sim = SimRun(self.case["sched_seed"], LoopConfig(cap=3000000, eager=self.case.get("eager", False)))
        if self.faults is None:
            self.faults = sim.faults
        else:
            sim.faults = self.faults
        self.h.loop = None
        res = {}

        async def main():
            self.h.loop = sim.loop
            await self.exchange(cuts, flips, res, record)
        sim.run(main)
        self.vtime += sim.loop._vnow
        self.iters += sim.loop.iterations
        return sim, res

    def execute(self):
        c = self.case
        cuts, flips = {}, {}
        if c["cut"] or c["flip"]:
            # calibration run: the same exchange without the fault tells how many ciphertext bytes flow
            saved = (c["frags"], c["delays"])
            c["frags"] = {"c2s": [65536], "s2c": [65536]}
            c["delays"] = {"c2s": [0], "s2c": [0]}
            sim, res = self.run_one({}, {}, False)
            c["frags"], c["delays"] = saved
            if sim.outcome != "ok" or res.get("hung"):
                self.v("calibration", f"fault-free calibration run failed: {sim.outcome} {sim.error!r} {res}")
                return self.result()
            tot = res["total"]
            if c["cut"]:
                d = c["cut"]["dir"]
                how = c["cut"]["how"]
                t = tot[d]
                if how == "frac":
                    off = int(c["cut"]["frac"] * t)
                elif how == "minus":
                    off = max(0, t - c["cut"]["minus"])
                elif how == "minus1":
                    off = max(0, t - 1)
                else:
                    off = int(c["cut"]["frac"] * min(t, 1500))
                cuts[d] = off
                c["cut_abs"] = {d: off, "of": t}
            if c["flip"]:
                d = c["flip"]["dir"]
                if tot[d]:
                    off = int(c["flip"]["frac"] * tot[d])
                    flips[d] = (off, c["flip"]["bit"])
                    c["flip_abs"] = {d: off, "of": tot[d]}
        sim, res = self.run_one(cuts, flips, True)
        if sim.outcome in ("deadlock", "itercap"):
            self.v("stuck", f"{sim.outcome}: {sim.error}; partial result {dict((k, v) for k, v in res.items() if k != 'sent')}")
            return self.result()
        if sim.outcome == "exc":
            self.v("error", f"unexpected exception {sim.error!r}")
            return self.result()
        if res.get("hung") and flips:
            self.nontrivial = True      # a corrupted length field can make both ends wait for bytes that never come
            return self.result()
        if res.get("hung"):
            self.v("stuck", "the exchange did not finish within 1e7 virtual seconds")
            return self.result()
        std = c["std"]
        for d, reader_name in (("c2s", "server"), ("s2c", "client")):
            r = res.get(d)
            sent = res["sent"][d]
            if r is None:
                continue
            got, end = r["got"], r["end"]
            self.h.rec("end", d, len(got), end)
            if not sent.startswith(got):
                self.v("integrity", f"{d}: the {reader_name} read {len(got)} bytes that are not a prefix of the {len(sent)} bytes written")
                continue
            truncated = res["truncated"][d]
            flipped = d in flips
            if flipped:
                self.nontrivial = True
                continue            # any error is acceptable, wrong plaintext is not (checked above)
            wrap_failed = any(k.endswith("_wrap") for k in res)
            if truncated:
                self.nontrivial = True
                if end is None and len(got) == len(sent):
                    pass            # duplex first closer: stopped reading after the expected bytes
                elif std and end == "EOS":
                    self.v("truncation_as_eof", f"{d}: the transport was truncated after {cuts.get(d)} ciphertext bytes but the "
                                                f"{reader_name} saw a clean EndOfStream after {len(got)}/{len(sent)} bytes")
                elif end in ("EOS", "BROKEN") and any(a not in (end, "ClosedResourceError") for a in res.get(d + "_again", ())) and not (
                        std and end == "BROKEN" and "EOS" in res.get(d + "_again", ())):
                    self.v("repeat_report", f"{d}: the truncated transport was first reported as {end}, but the following receive() "
                                            f"calls ended with {res[d + '_again']}")
                elif std and end == "BROKEN" and "EOS" in res.get(d + "_again", ()):
                    self.v("truncation_as_eof", f"{d}: the truncation (after {cuts.get(d)} ciphertext bytes) was reported as "
                                                f"BrokenResourceError, but the following receive() calls ended with "
                                                f"{res[d + '_again']}: a clean EndOfStream after a truncation")
                elif not std and end not in ("EOS", None) and not end.startswith("SSLERROR"):
                    self.v("nonstd_end", f"{d}: standard_compatible=False, truncated transport reported as {end}")
            elif not wrap_failed and not cuts and not flips:
                if got != sent:
                    self.v("integrity", f"{d}: clean run, the {reader_name} read {len(got)} of {len(sent)} bytes (end={end})")
                if end not in ("EOS", None):
                    self.v("clean_end", f"{d}: clean closing handshake reported as {end}")
        if not cuts and not flips:
            for k in ("server_wrap", "client_wrap", "server_send_err", "client_send_err", "server_close", "client_close"):
                if k in res:
                    self.v("clean_error", f"fault-free exchange: {k} = {res[k]}")
        return self.result()

    def result(self):
        c = self.case
        return {"violations": self.viol, "digest": self.h.digest((c["ver"], c["std"], c["duplex"], c.get("cut_abs"), c.get("flip_abs"))),
                "faults": dict(self.faults or {}), "nontrivial": self.nontrivial or max(map(len, (c["frags"]["c2s"], c["frags"]["s2c"]))) > 1,
                "vtime": self.vtime, "iters": self.iters, "steps": self.h.seq, "probes": {},
                "cfg": [f"TLS{c['ver']}:{'std' if c['std'] else 'nonstd'}:{'duplex' if c['duplex'] else 'simplex'}"],
                "history_text": self.h.text(80)}


def shrinks(case):
    for d in ("c2s", "s2c"):
        for i in range(len(case[d])):
            c = copy.deepcopy(case)
            del c[d][i]
            if c["c2s"]:
                yield c
        for i, n in enumerate(case[d]):
            if n > 1:
                c = copy.deepcopy(case)
                c[d][i] = 1
                yield c
    if case["duplex"]:
        c = copy.deepcopy(case)
        c["duplex"] = False
        c["s2c"] = []
        yield c
    for d in ("c2s", "s2c"):
        if case["frags"][d] != [65536]:
            c = copy.deepcopy(case)
            c["frags"][d] = [65536]
            yield c
        if any(case["delays"][d]):
            c = copy.deepcopy(case)
            c["delays"][d] = [0]
            yield c
    if case.get("eager"):
        c = copy.deepcopy(case)
        c["eager"] = False
        yield c


class TLSCheck:
    prop = "C17"
    engine = "bytes-tls"
    level = "exploration"
    chunk = 16
    hard_timeout = 400
    components = {
        "real": ["anyio.streams.tls.TLSStream on both ends", "CPython ssl / OpenSSL (SSLObject over MemoryBIO), TLS 1.2 and 1.3"],
        "stub": ["the transport between the two TLSStreams (Wire pair: seeded fragmentation, coalescing, delays, truncation at a "
                 "seeded ciphertext offset, bit flips)", "event loop and clock (SimLoop)"],
    }
    assumptions = [
        "static RSA test certificates (fixtures/) so that record sizes are constant and the byte-level schedule replays",
        "contexts are built like the test-suite's: default contexts with OP_IGNORE_UNEXPECTED_EOF cleared",
        "a cut offset is derived from a fault-free calibration run of the same exchange; digests hash sizes and plaintext events, "
        "never ciphertext (which is random)",
        "with a flipped bit any error is acceptable; only wrong plaintext is a violation",
    ]
    fault_kinds = ["fragment", "coalesce", "truncate", "bitflip", "peer_eof"]
    budgets = {"quick": (30000, 100), "thorough": (1_500_000, 1500)}
    rule_text = ("cases = TLS 1.2/1.3 x standard_compatible on/off x simplex/duplex x message-size sequences (0 bytes .. several "
                 "records: 0,1,5,100,3000,17000[,16384,40000]) x receive sizes 1/7/100/65536 x per-direction fragment patterns (1 "
                 "byte .. full coalescing) and delays x fault (none / truncation at a seeded ciphertext offset: fraction of the "
                 "stream, within the handshake, 1..60 bytes before the end, 1 byte before the end / one flipped bit); distinct = "
                 "SHA1 of (configuration, plaintext chunk sizes, end classification); non-trivial = a fault fired or the transport "
                 "was re-chunked")

    def bounds(self, tier):
        return {"message_sizes": [0, 40000 if tier == "thorough" else 17000], "messages_per_direction": [0, 4 if tier == "thorough" else 3],
                "fragment_sizes": [1, 65536], "versions": ["1.2", "1.3"]}

    def gen_case(self, seed, tier):
        return gen_case(seed, tier)

    def run_case(self, case):
        return TLSRun(copy.deepcopy(case)).execute()

    def shrinks(self, case):
        return shrinks(case)
