"""Engine THREADS/portal (C15): BlockingPortal under baton scheduling.

Up to 4 caller threads issue call / start_task_soon / start_task / future.cancel() /
wrap_async_context_manager against a portal that runs either (a) inside anyio.run on the main simulated
loop or (b) through start_blocking_portal (the loop lives in a managed thread of its own); the callables
are sync functions, coroutines, coroutines that sleep or wait to be released, failing ones and ones that
call started(v); the portal is stopped (with or without cancel_remaining) or its context is left at a
seeded instant.  A seeded scheduler picks the running thread at every yield point (loop iteration,
call_soon_threadsafe, Future.result, thread start/join, loop.close() and gates in the caller programs).
"""
from __future__ import annotations

import asyncio
import concurrent.futures
import copy
import random
import threading

from simkit import baton
from simkit.baton import BatonAbort, BatonLoop, SimThread
from simkit.harness import History, LoopConfig, SimRun, anyio, simset

from anyio import CancelScope, Event, TASK_STATUS_IGNORED, create_task_group, from_thread, get_cancelled_exc_class, move_on_after, sleep
from anyio.from_thread import BlockingPortal, start_blocking_portal
from anyio.lowlevel import checkpoint

KINDS = ["sync", "coro", "coro_sleep", "fail", "wait_release", "soon", "soon_cancel", "soon_late_cancel", "start", "start_fail",
         "start_nostarted", "cm", "release", "gate", "self_cancel"]


class CallErr(Exception):
    pass


class CallBaseErr(BaseException):
    """Raised by a portal callable: not an Exception, not a cancellation.  The caller must get it; the portal's task group
    fails with it by design ("let base exceptions fall through"), which takes the other calls down with it."""


# (No falsy exception objects here, unlike engines/sc.py and engines/threads_to.py: portal calls are answered through
# concurrent.futures.Future, whose own result() tests `if self._exception:` - CPython loses such an exception before
# anyio is involved.)


def gen_case(seed, tier, prop="C15"):
    rng = random.Random(seed)
    big = tier == "thorough"
    ncallers = rng.randint(1, 4 if big else 3)
    callers = []
    for _ in range(ncallers):
        prog = []
        for _ in range(rng.randint(1, 5 if big else 4)):
            prog.append([rng.choice(KINDS), rng.choice([0, 0.125, 0.25])])
        if rng.random() < 0.25:
            prog.insert(rng.randint(0, len(prog)), ["stop", rng.random() < 0.5])
        callers.append(prog)
    if rng.random() < 0.06:
        prog = rng.choice(callers)
        prog[rng.randrange(len(prog))] = ["fail_base", 0]
    loop = LoopConfig(eager=rng.random() < 0.25, cap=30000, p_late=rng.choice([0, 0, 0.2])).to_json()
    mode = rng.choice(["inline", "thread", "thread"])
    leave_early = rng.random() < 0.4
    if mode == "inline" or leave_early or any(op[0] in ("stop", "fail_base") for prog in callers for op in prog):
        # a wrapped context manager must be left while the portal is still running (anything else is a usage error)
        for prog in callers:
            for op in prog:
                if op[0] == "cm":
                    op[0] = "coro"
    return {"engine": "threads_portal", "prop": "C15", "mode": mode, "callers": callers,
            "main_yields": rng.randint(0, 8), "leave_early": leave_early, "exit_with_error": rng.random() < 0.15,
            "inline_stop_after": rng.choice([0.125, 0.25, 0.5, 1.0]), "two_step_stop": rng.random() < 0.4,
            "loop": loop, "sched_seed": rng.getrandbits(32),
            "preempt": rng.choice([0, 0, 0, 0.03, 0.15])}


_CUR = None
_patched = False


def _patch_portal_exit():
    """Harness-side observation: an exception group leaving BlockingPortal.__aexit__ means the portal's own task group
    crashed (start_blocking_portal() swallows it silently, so it must be caught here)."""
    global _patched
    if _patched:
        return
    _patched = True
    from anyio.from_thread import BlockingPortal
    orig = BlockingPortal.__aexit__

    async def __aexit__(self, et, ev, tb):
        try:
            return await orig(self, et, ev, tb)
        except BaseExceptionGroup as eg:
            run = _CUR
            if run is not None:
                leaves = []

                def walk(e):
                    if isinstance(e, BaseExceptionGroup):
                        for x in e.exceptions:
                            walk(x)
                    else:
                        leaves.append(e)
                walk(eg)
                bad = [e for e in leaves if not isinstance(e, (CallErr, CallBaseErr))]
                if bad:
                    run.v("portal_crashed", "the portal's task group failed with " + "; ".join(repr(e)[:160] for e in bad[:3])
                          + " - every other call through the portal is cancelled or refused from then on",
                          sig="C15.portal_crashed:" + ",".join(sorted({type(e).__name__ for e in bad})))
            raise
    BlockingPortal.__aexit__ = __aexit__


class PortalRun:
    def __init__(self, case):
        self.case = case
        self.h = History()
        self.viol = []
        self.probes = {}
        self.faults = None
        self.nontrivial = False
        self.calls = {}              # cid -> dict(state)
        self.stop_seen = threading.Event()   # plain flag object (never waited on)
        self.stopped = False         # a stop() call has returned to its caller / the context has been left
        self.stop_begun = False
        self.context_left = False
        self.context_left_begun = False
        self.cancel_stop_begun = False
        self.base_raised = False
        self.loop = None

    def v(self, rule, detail, sig=None):
        if len(self.viol) < 8:
            self.viol.append({"rule": "C15." + rule, "sig": sig or "C15." + rule,
                              "detail": f"[{self.case['mode']}] {detail} (seq={self.h.seq})"})

    def bump(self, k):
        self.probes[k] = self.probes.get(k, 0) + 1

    # -- callables executed in the loop thread --------------------------------------------------------
    def mk(self, cid, kind, dur):
        st = self.calls[cid]
        run = self
        loop_tid = lambda: run.loop_thread_ident

        def value():
            # what a callable returns is data, whatever its type: every third call returns an exception *instance*
            obj = ("v", cid) if (cid[0] + cid[1]) % 3 else CallErr("returned, not raised", cid)
            st["ret_obj"] = obj
            return obj

        def enter():
            st["exec"] += 1
            st["running"] = True
            if threading.get_ident() != loop_tid():
                run.v("wrong_thread", f"call {cid} was executed outside the event loop thread")

        def fsync():
            enter()
            st["running"] = False
            st["done"] = True
            return value()

        async def fcoro():
            enter()
            try:
                await checkpoint()
                return value()
            except get_cancelled_exc_class():
                st["cancelled_inside"] = True
                raise
            finally:
                st["running"] = False
                st["done"] = True

        async def fsleep():
            enter()
            try:
                await sleep(dur or 0.125)
                return value()
            except get_cancelled_exc_class():
                st["cancelled_inside"] = True
                raise
            finally:
                st["running"] = False
                st["done"] = True

        async def ffail():
            enter()
            try:
                await checkpoint()
                exc = CallErr(cid)
                st["raised"] = exc
                raise exc
            except get_cancelled_exc_class():
                st["cancelled_inside"] = True
                raise
            finally:
                st["running"] = False
                st["done"] = True

        async def fwait():
            enter()
            try:
                with move_on_after(2.0):
                    await run.release_event.wait()
                return value()
            except get_cancelled_exc_class():
                st["cancelled_inside"] = True
                raise
            finally:
                st["running"] = False
                st["done"] = True

        async def ffailbase():
            enter()
            try:
                await checkpoint()
                exc = CallBaseErr(cid)
                st["raised"] = exc
                run.base_raised = True
                raise exc
            finally:
                st["running"] = False
                st["done"] = True

        async def fselfcancel():
            # ends with the backend's cancellation exception although nobody cancelled its future or the portal (it
            # awaited something that was cancelled natively): that is this call's own outcome and nobody else's
            enter()
            try:
                await checkpoint()
                fut = asyncio.get_running_loop().create_future()
                fut.cancel()
                st["self_cancelled"] = True
                await fut
            finally:
                st["running"] = False
                st["done"] = True

        async def fstart(*, task_status=TASK_STATUS_IGNORED):
            enter()
            try:
                await checkpoint()
                if kind == "start_fail":
                    exc = CallErr(cid)
                    st["raised"] = exc
                    raise exc
                if kind == "start":
                    sv = ("s", cid) if cid[1] % 2 else CallErr("started value, not an error", cid)
                    st["started_value"] = sv
                    task_status.started(sv)
                    await sleep(dur or 0.125)
                return value()
            except get_cancelled_exc_class():
                st["cancelled_inside"] = True
                raise
            finally:
                st["running"] = False
                st["done"] = True

        return {"sync": fsync, "coro": fcoro, "coro_sleep": fsleep, "fail": ffail, "wait_release": fwait, "soon": fsleep,
                "self_cancel": fselfcancel, "fail_base": ffailbase, "soon_cancel": fsleep, "soon_late_cancel": fwait, "start": fstart, "start_fail": fstart, "start_nostarted": fstart}[kind]

    class CM:
        def __init__(self, run, cid):
            self.run, self.cid = run, cid

        async def __aenter__(self):
            st = self.run.calls[self.cid]
            st["exec"] += 1
            await checkpoint()
            st["entered"] = True
            return ("cm", self.cid)

        async def __aexit__(self, *exc):
            st = self.run.calls[self.cid]
            await checkpoint()
            st["exited"] = st.get("exited", 0) + 1
            st["done"] = True
            return False

    # -- caller threads ------------------------------------------------------------------------------------
    def caller(self, ci, prog, portal):
        S = baton.S
        for k, (kind, dur) in enumerate(prog):
            cid = (ci, k)
            S.yield_point("caller")
            if kind == "gate":
                continue
            if kind == "release":
                try:
                    self.release_requested = True
                    portal.call(self.release_event.set)
                except RuntimeError:
                    pass
                continue
            if kind == "stop":
                self.stop_begun = True
                if dur:
                    self.cancel_stop_begun = True
                self.h.rec("stop_begin", ci, dur)
                try:
                    portal.call(portal.stop, dur)
                except RuntimeError:
                    pass
                else:
                    self.stopped = True
                    self.h.rec("stop_done", ci)
                    self.faults["portal_stop"] += 1
                    if dur:
                        self.faults["portal_stop_cancel_remaining"] += 1
                continue
            st = self.calls[cid] = {"exec": 0, "kind": kind, "issued_after_stop": self.stopped or self.context_left,
                                    "stop_begun_at_issue": self.stop_begun, "outcome": None}
            fn = self.mk(cid, kind, dur) if kind != "cm" else None
            self.h.rec("issue", cid, kind)
            st["waiting"] = True
            try:
                if kind in ("sync", "coro", "coro_sleep", "wait_release"):
                    r = portal.call(fn)
                    self.check_value(cid, r)
                elif kind == "fail_base":
                    try:
                        portal.call(fn)
                        self.v("result", f"call {cid}: the callable raised a BaseException but portal.call() returned normally")
                    except CallBaseErr as e:
                        if e is not st.get("raised"):
                            self.v("result", f"call {cid}: portal.call() raised {e!r}, not the callable's own exception")
                        else:
                            self.bump("base_exception_delivered")
                        st["outcome"] = "raised"
                elif kind == "self_cancel":
                    try:
                        portal.call(fn)
                    except concurrent.futures.CancelledError:
                        st["outcome"] = "cancelled"
                        if st.get("self_cancelled"):
                            self.bump("own_cancellation_reported_to_caller")
                        elif not self.cancel_remaining_possible():
                            self.v("spurious_cancel", f"call {cid}: cancelled before it ran although cancel_remaining was never requested")
                    else:
                        self.v("result", f"call {cid}: the callable ended with a cancellation but portal.call() returned normally")
                elif kind == "fail":
                    try:
                        portal.call(fn)
                        self.v("result", f"call {cid}: the callable raised but portal.call() returned normally")
                    except CallErr as e:
                        if e is not st.get("raised"):
                            self.v("result", f"call {cid}: portal.call() raised {e!r}, not the callable's own exception")
                        else:
                            self.bump("exception_delivered")
                        st["outcome"] = "raised"
                elif kind in ("soon", "soon_cancel", "soon_late_cancel"):
                    f = portal.start_task_soon(fn)
                    if kind == "soon_cancel":
                        S.yield_point("before-cancel")
                        self.h.rec("future_cancel", cid)
                        st["cancel_requested"] = True
                        st["in_cancel"] = True
                        f.cancel()
                        st["in_cancel"] = False
                        self.faults["future_cancel"] += 1
                    elif kind == "soon_late_cancel":
                        for _ in range(4):
                            S.yield_point("before-late-cancel")
                        self.h.rec("future_cancel", cid)
                        st["cancel_requested"] = True
                        if st["exec"]:
                            self.nontrivial = True
                        st["in_cancel"] = True
                        f.cancel()
                        st["in_cancel"] = False
                        self.faults["future_cancel"] += 1
                    try:
                        r = f.result()
                    except concurrent.futures.CancelledError:
                        st["outcome"] = "cancelled"
                        if not st.get("cancel_requested") and not self.cancel_remaining_possible():
                            self.v("spurious_cancel", f"call {cid}: its future was cancelled although nobody cancelled it and "
                                                      f"the portal was not stopped with cancel_remaining")
                    else:
                        self.check_value(cid, r)
                elif kind in ("start", "start_fail", "start_nostarted"):
                    try:
                        f, sv = portal.start_task(fn)
                    except CallErr as e:
                        if kind != "start_fail" or e is not st.get("raised"):
                            self.v("result", f"call {cid}: start_task() raised {e!r}")
                        else:
                            self.bump("start_exception_delivered")
                        st["outcome"] = "raised"
                    except RuntimeError as e:
                        if "task_status.started()" in str(e) and kind == "start_nostarted":
                            self.bump("start_without_started_reported")
                            st["outcome"] = "nostarted"
                        else:
                            raise
                    except concurrent.futures.CancelledError:
                        st["outcome"] = "cancelled"
                        if not self.cancel_remaining_possible():
                            self.v("spurious_cancel", f"call {cid}: start_task() was cancelled without cancel_remaining")
                    else:
                        if kind != "start":
                            self.v("result", f"call {cid}: start_task() returned {sv!r} although the task never called started()")
                        elif sv is not st.get("started_value"):
                            self.v("result", f"call {cid}: start_task() returned start value {sv!r}")
                        else:
                            self.bump("start_value_delivered")
                        try:
                            r = f.result()
                        except concurrent.futures.CancelledError:
                            st["outcome"] = "cancelled"
                            if not self.cancel_remaining_possible():
                                self.v("spurious_cancel", f"call {cid}: the started task's future was cancelled without cancel_remaining")
                        else:
                            self.check_value(cid, r)
                elif kind == "cm":
                    cm = portal.wrap_async_context_manager(self.CM(self, cid))
                    with cm as val:
                        if val != ("cm", cid):
                            self.v("result", f"call {cid}: wrapped context manager yielded {val!r}")
                        S.yield_point("inside-cm")
                    if st.get("exited") != 1:
                        self.v("cm_exit", f"call {cid}: __aexit__ ran {st.get('exited', 0)} times")
                    else:
                        self.bump("context_manager_roundtrip")
                    st["outcome"] = "ok"
            except RuntimeError as e:
                st["outcome"] = "refused"
                self.h.rec("refused", cid)
                if st["exec"]:
                    self.v("refused_but_ran", f"call {cid} was refused with RuntimeError({e}) although the callable was executed")
                elif not (self.stop_begun or self.context_left_begun or self.cancel_remaining_possible()):
                    self.v("refused_running", f"call {cid} was refused with RuntimeError({e}) although the portal had not been stopped")
                else:
                    self.bump("refused_after_stop")
            except concurrent.futures.CancelledError:
                st["outcome"] = "cancelled"
                if not self.cancel_remaining_possible():
                    self.v("spurious_cancel", f"call {cid}: cancelled although cancel_remaining was never requested")
            finally:
                st["waiting"] = False
            if st["outcome"] not in ("refused",) and st["issued_after_stop"]:
                self.v("accepted_after_stop", f"call {cid} ({kind}) was issued after stop() had completed and was not refused "
                                              f"(outcome {st['outcome']})")
            self.h.rec("done", cid, st["outcome"])

    def cancel_remaining_possible(self):
        return (self.faults.get("portal_stop_cancel_remaining", 0) > 0 or self.case["exit_with_error"] or self.cancel_stop_begun
                or self.base_raised or any(op[0] == "fail_base" for prog in self.case["callers"] for op in prog))

    def check_value(self, cid, r):
        st = self.calls[cid]
        if "ret_obj" not in st or r is not st["ret_obj"]:
            self.v("result", f"call {cid}: got {r!r} instead of the callable's return value")
        else:
            self.bump("value_delivered")
        st["outcome"] = "ok"

    # -- scenarios ---------------------------------------------------------------------------------------------
    def start_callers(self, portal):
        ths = []
        for ci, prog in enumerate(self.case["callers"]):
            t = SimThread(target=self.caller, args=(ci, prog, portal), name=f"caller{ci}")
            t.sim_name = f"caller{ci}"
            ths.append(t)
        for t in ths:
            t.start()
        return ths

    def after_context(self, where):
        """Leaving the portal must not complete before every task started through it is final."""
        self.context_left = True
        for cid, st in self.calls.items():
            if st.get("running"):
                self.v("orphan_task", f"{where}: the portal context was left while the task of call {cid} is still running")
        self.h.rec("context_left")

    def body_thread_mode(self):
        c = self.case
        S = baton.S
        self.cancel_stop_begun = False
        self.context_left_begun = False
        cfgs = {"loop_factory": lambda: self._make_loop()}
        err = None
        try:
            with start_blocking_portal(backend_options=cfgs) as portal:
                self.release_event = portal.call(Event)
                ths = self.start_callers(portal)
                for _ in range(c["main_yields"]):
                    S.yield_point("main")
                if not c["leave_early"]:
                    for t in ths:
                        t.join()
                if c["exit_with_error"]:
                    self.cancel_stop_begun = True
                self.context_left_begun = True
                self.stop_begun = True
                self.h.rec("leaving_context")
                self.faults["portal_stop"] += 1
                if c["exit_with_error"]:
                    raise CallErr("leave")
        except CallErr as e:
            err = e
        self.stopped = True
        self.after_context("start_blocking_portal")
        for t in ths:
            t.join()

    def _make_loop(self):
        self.loop = BatonLoop(self.rng_loop, LoopConfig.from_json(self.case["loop"]))
        self.h.loop = self.loop
        self.loop_thread_ident = threading.get_ident()
        return self.loop

    async def inline_main(self):
        c = self.case
        self.loop_thread_ident = threading.get_ident()
        self.release_event = Event()
        self.cancel_stop_begun = False
        self.context_left_begun = False
        async with BlockingPortal() as portal:
            self.ths = self.start_callers(portal)
            with move_on_after(c["inline_stop_after"]):
                await portal.sleep_until_stopped()
            if c.get("two_step_stop"):
                # graceful stop first (new calls refused, running tasks may finish), then a forced one
                self.stop_begun = True
                self.h.rec("stop_begin", "main", False)
                await portal.stop()
                self.stopped = True
                await sleep(0.125)
                self.cancel_stop_begun = True
                self.h.rec("stop_begin", "main", True)
                await portal.stop(cancel_remaining=True)
                self.faults["portal_stop_cancel_remaining"] += 1
                for _ in range(6):
                    await sleep(0)
                still = [cid for cid, st in self.calls.items() if st.get("running")]
                if still:
                    self.v("cancel_remaining_ignored", f"tasks of calls {still} are still running 6 loop cycles after "
                                                       f"stop(cancel_remaining=True) (issued after an earlier graceful stop())")
                else:
                    self.bump("forced_stop_after_graceful_stop")
            self.context_left_begun = True
            self.stop_begun = True
            self.h.rec("leaving_context")
            self.faults["portal_stop"] += 1
        self.stopped = True
        self.after_context("async with BlockingPortal()")

    def execute(self):
        case = self.case
        seed = case["sched_seed"]
        self.rng_loop = random.Random(f"loop:{seed}")
        from collections import Counter
        self.faults = Counter()
        global _CUR
        _patch_portal_exit()
        _CUR = self
        sched = baton.begin(random.Random(f"baton:{seed}"), self.faults, "main", preempt=case.get("preempt", 0), suppress=case.get("suppress", ()))
        simset.set_rng(random.Random(f"set:{seed}"), self.faults)
        sched.on_switch = lambda who, where, nxt: self.h.rec("preempted", who, where, "->", nxt)
        snap = {}

        def snapshot():
            snap["waiting"] = [dict(cid=cid, exec=st["exec"], kind=st["kind"], stop_begun_at_issue=st["stop_begun_at_issue"],
                                    stop_begun_now=self.stop_begun or self.base_raised, in_cancel=bool(st.get("in_cancel")))
                               for cid, st in self.calls.items() if st.get("waiting")]
        sched.on_deadlock.append(snapshot)
        outcome = "ok"
        err = None
        import gc
        gc_was = gc.isenabled()
        gc.disable()
        try:
            try:
                if case["mode"] == "thread":
                    self.body_thread_mode()
                else:
                    sim = SimRun(seed, LoopConfig.from_json(case["loop"]), loop_cls=BatonLoop)
                    sim.faults = self.faults
                    sim.rng_loop = self.rng_loop
                    self.sim = sim

                    def factory():
                        sim.loop = self._make_loop()
                        return sim.loop
                    sim._factory = factory
                    try:
                        sim.run(self.inline_main)
                    except BaseExceptionGroup as eg:
                        sim.outcome, sim.error = "exc", eg       # (SimRun only converts Exception subclasses)
                    outcome = sim.outcome
                    err = sim.error
                    if outcome == "exc" and self.base_raised and isinstance(err, BaseException):
                        ls = []

                        def walk(e):
                            if isinstance(e, BaseExceptionGroup):
                                for x in e.exceptions:
                                    walk(x)
                            else:
                                ls.append(e)
                        walk(err)
                        if ls and all(isinstance(x, CallBaseErr) for x in ls):
                            outcome, err = "ok", None       # the portal failed with the callable's BaseException, as designed
                    simset.set_rng(random.Random(f"set2:{seed}"), self.faults)
                    if outcome == "ok":
                        for t in self.ths:
                            t.join()
                if outcome == "ok":
                    baton.finish(wait=True)
            except BatonAbort:
                pass
            except (asyncio.CancelledError, Exception) as e:
                outcome = "exc"
                err = e
        finally:
            baton.finish(wait=False)
            simset.set_rng(None)
            if gc_was:
                gc.enable()
        if self.loop is not None:
            self.faults.update(self.loop.stats)
        if sched.deadlock:
            waiting = snap.get("waiting", [])
            parked_in_call = all(("future.result" in part or "join" in part) for part in sched.deadlock.split(": ", 1)[-1].split(", "))
            f8 = (self.stop_begun or self.context_left_begun or self.base_raised) and parked_in_call and all(
                (w["exec"] == 0 or w["in_cancel"]) and w["stop_begun_now"] for w in waiting)
            self.v("stuck", f"deadlock: {sched.deadlock}; calls still waiting for an answer: {waiting}",
                   sig="C15.stuck:" + ("call-raced-with-loop-shutdown" if f8 else "deadlock"))
        elif outcome == "itercap":
            self.v("stuck", f"busy loop: {err}")
        elif outcome == "deadlock":
            self.v("stuck", f"would block forever: {err}")
        elif outcome == "exc":
            import traceback
            self.v("error", "unexpected exception: " + "".join(traceback.format_exception(err))[-1500:])
        else:
            self.final_checks()
        loop = self.loop
        import hashlib
        dig = hashlib.sha1((self.h.digest() + repr(sched.log)).encode()).hexdigest()
        return {"violations": self.viol, "digest": dig, "faults": dict(self.faults), "nontrivial": self.nontrivial or
                self.faults.get("future_cancel", 0) > 0 or self.faults.get("portal_stop", 0) > 0 and any(
                    st["outcome"] in ("refused", "cancelled") for st in self.calls.values()),
                "vtime": loop._vnow if loop else 0.0, "iters": loop.iterations if loop else 0,
                "steps": self.h.seq + len(sched.log), "probes": self.probes, "cfg": [case["mode"]],
                "history_text": self.h.text(120), "decisions": sched.decisions,
                "switch_ordinals": list(sched.switch_ords)}

    def final_checks(self):
        for cid, st in self.calls.items():
            n = st["exec"]
            out = st["outcome"]
            if n > 1:
                self.v("exec_count", f"the callable of call {cid} ({st['kind']}) ran {n} times")
            elif n == 0 and out not in ("refused", "cancelled"):
                self.v("exec_count", f"the callable of call {cid} ({st['kind']}) never ran but the call ended with {out}")
            elif n == 1:
                self.bump("executed_once")
            if (out == "cancelled" and n and not st.get("cancelled_inside") and st["kind"] == "soon_late_cancel"
                    and st.get("cancel_requested") and not getattr(self, "release_requested", False)):
                # the task was parked (waiting up to 2 virtual seconds to be released, and nobody released it) when its
                # future was cancelled: the cancellation must have interrupted it
                self.v("cancel_not_delivered", f"call {cid}: the future was cancelled while the task was blocked, but the task "
                                               f"was never interrupted")
            if out == "ok" and st.get("cancel_requested") and st.get("cancelled_inside"):
                self.v("result", f"call {cid}: the task was cancelled but its future delivered a value")
            if st.get("cancelled_inside") and not (st.get("cancel_requested") or self.cancel_remaining_possible()):
                self.v("wrong_task_cancelled", f"call {cid}: the task was interrupted although neither its future was cancelled "
                                               f"nor cancel_remaining requested")
            if out is None:
                self.v("unanswered", f"call {cid} ({st['kind']}) never got an answer")


def shrinks(case):
    if case.get("preempt"):
        c = copy.deepcopy(case)
        c["preempt"] = 0
        yield c
        # schedule minimisation: drop, one at a time, the line pre-emptions that switched threads
        try:
            ords = PortalRun(copy.deepcopy(case)).execute().get("switch_ordinals", [])
        except Exception:
            ords = []
        have = set(case.get("suppress", ()))
        ords = [o for o in ords if o not in have]
        size = len(ords)
        while size >= 1:                      # ddmin-style: big chunks first, single switches last
            for i in range(0, len(ords), size):
                c = copy.deepcopy(case)
                c["suppress"] = sorted(have | set(ords[i:i + size]))
                yield c
            size //= 2
    for i in range(len(case["callers"])):
        if len(case["callers"]) > 1:
            c = copy.deepcopy(case)
            del c["callers"][i]
            yield c
    for i, prog in enumerate(case["callers"]):
        for j in range(len(prog)):
            if len(prog) > 1:
                c = copy.deepcopy(case)
                del c["callers"][i][j]
                yield c
    for i, prog in enumerate(case["callers"]):
        for j, (kind, dur) in enumerate(prog):
            if dur and kind != "stop":
                c = copy.deepcopy(case)
                c["callers"][i][j][1] = 0
                yield c
    for key, val in (("leave_early", False), ("exit_with_error", False), ("main_yields", 0)):
        if case.get(key):
            c = copy.deepcopy(case)
            c[key] = val
            yield c
    for key, val in (("eager", False), ("p_late", 0)):
        if case["loop"].get(key):
            c = copy.deepcopy(case)
            c["loop"][key] = val
            yield c


class PortalCheck:
    shrink_runs = 3000      # races need many re-executions: program shrinking, derived schedule seeds, pre-emption ddmin
    shrink_s = 150
    prop = "C15"
    engine = "threads-portal"
    level = "exploration"
    chunk = 16
    recheck = 24
    hard_timeout = 300
    components = {
        "real": ["anyio BlockingPortal, start_blocking_portal, from_thread.run_sync marshalling, wrap_async_context_manager, "
                 "TaskGroup/CancelScope (asyncio backend)", "real OS threads for the callers and the portal's loop",
                 "concurrent.futures.Future (data path, cancel, callbacks)"],
        "stub": ["thread scheduling (baton passing, seeded choice at every yield point)",
                 "blocking in Future.result/exception and Thread.join (predicate parks)",
                 "event loop and clock (BatonLoop: virtual time)"],
    }
    assumptions = [
        "asyncio backend only; uvloop not simulated; pre-emption at yield points",
        "a call issued while a stop is in progress may be accepted or refused; one issued after stop() has returned to its caller "
        "(or after the context was left) must be refused",
        "a future cancelled before its task started means the callable legitimately never runs",
    ]
    fault_kinds = ["thread_preempt", "threadsafe_call", "future_cancel", "portal_stop", "portal_stop_cancel_remaining", "timer_tie"]
    budgets = {"quick": (40000, 100), "thorough": (1_500_000, 1500)}
    rule_text = ("cases = portal inside anyio.run (inline) or start_blocking_portal (own loop thread) x 1-3/4 caller threads x 1-4/5 "
                 "operations (call with sync/coroutine/sleeping/failing/waiting callables, start_task_soon with immediate or late "
                 "future.cancel(), start_task with started / failure before started / no started, wrap_async_context_manager, "
                 "release, gate, stop(cancel_remaining T/F)) x main thread leaving early or with an exception; distinct = SHA1 of the "
                 "event history plus the scheduler's decision log; non-trivial = a future was cancelled or the portal was stopped "
                 "while calls were refused or cancelled")

    def bounds(self, tier):
        big = tier == "thorough"
        return {"caller_threads": [1, 4 if big else 3], "operations_per_caller": [1, 5 if big else 4], "modes": ["inline", "thread"]}

    def gen_case(self, seed, tier):
        return gen_case(seed, tier)

    def run_case(self, case):
        return PortalRun(case).execute()

    def shrinks(self, case):
        return shrinks(case)
