"""Engine SYNC/permits: Lock (C09), Semaphore and CapacityLimiter (C10).

Workload: N tasks run seeded programs of acquire / acquire_nowait / release / sleep / checkpoint
statements grouped in cancellable segments; sibling tasks and external loop callbacks cancel
segments and (limiter) assign total_tokens at seeded instants, biased to the loop cycle in which
a permit is being handed over.

Oracle: a *grant-time* reference automaton (DESIGN.md section 4, "Modelling rule").  It is a FIFO
permit queue whose only nondeterminism is when a waiter with a pending cancellation leaves the
queue (at the cancel request, or when it unwinds - in which case a permit it was handed meanwhile
is passed on).  The checker tracks the set of automaton states ("worlds") compatible with the
observations made so far; an observation compatible with no world is a violation.
"""
from __future__ import annotations

import math
import random

from simkit.harness import History, LoopConfig, SimRun, anyio

from anyio import (CancelScope, CapacityLimiter, Lock, Semaphore, WouldBlock, create_task_group,
                   get_cancelled_exc_class, sleep)
from anyio.lowlevel import checkpoint

INF = math.inf
DUR = [0, 0, 0.125, 0.125, 0.25, 0.5]
MAX_WORLDS = 96


# ------------------------------------------------------------------------------------------
# reference automaton
# ------------------------------------------------------------------------------------------
class World:
    """kind 'lock' | 'sem' | 'lim'.  `free` permits; queue entries (who, cp, granted).
    For lock/lim `held` is the set of holder identities (including granted waiters that have not
    resumed yet), for sem only the count matters."""

    __slots__ = ("kind", "total", "held", "value", "queue", "maxv")

    def __init__(self, kind, total, held, value, queue, maxv):
        self.kind = kind
        self.total = total
        self.held = held
        self.value = value
        self.queue = queue
        self.maxv = maxv

    def key(self):
        return (self.total, self.held, self.value, self.queue)

    def free(self):
        if self.kind == "sem":
            return self.value
        return self.total - len(self.held)

    def used(self):
        return len(self.held)

    def clone(self, **kw):
        w = World(self.kind, self.total, self.held, self.value, self.queue, self.maxv)
        for k, v in kw.items():
            setattr(w, k, v)
        return w

    def _take(self, who):
        if self.kind == "sem":
            return self.clone(value=self.value - 1)
        return self.clone(held=self.held | {who})

    def _give(self, who):
        if self.kind == "sem":
            return self.clone(value=self.value + 1)
        return self.clone(held=self.held - {who})

    def summary(self):
        q = ",".join(f"{w}{'~' if cp else ''}{'*' if g else ''}" for w, cp, g in self.queue)
        if self.kind == "sem":
            return f"<value={self.value} queue=[{q}]>"
        return f"<total={self.total} held={sorted(map(str, self.held))} queue=[{q}]>"


def dispatch(w, stats=None):
    """Grant free permits to the head(s) of the queue; branch on cancel-pending heads."""
    out = []
    stack = [w]
    while stack:
        w = stack.pop()
        if w.free() <= 0:
            out.append(w)
            continue
        idx = None
        for i, e in enumerate(w.queue):
            if not e[2]:
                idx = i
                break
        if idx is None:
            out.append(w)
            continue
        who, cp, _ = w.queue[idx]
        q = w.queue
        granted = w._take(who)
        granted.queue = q[:idx] + ((who, cp, True),) + q[idx + 1:]
        stack.append(granted)
        if cp:
            stack.append(w.clone(queue=q[:idx] + q[idx + 1:]))
            if stats is not None:
                stats["world_branch"] += 1
    return out


class Model:
    def __init__(self, kind, total, maxv, faults):
        if kind == "sem":
            w = World("sem", None, frozenset(), total, (), maxv)
        else:
            w = World(kind, total, frozenset(), None, (), None)
        self.kind = kind
        self.worlds = [w]
        self.faults = faults
        self.inconclusive = False
        self.pending = {}    # who -> cp flag of acquire operations begun and not ended

    def _set(self, worlds):
        seen = {}
        for w in worlds:
            seen.setdefault(w.key(), w)
        self.worlds = list(seen.values())
        if len(self.worlds) > MAX_WORLDS:
            self.inconclusive = True

    def summary(self):
        return " | ".join(w.summary() for w in self.worlds[:6])

    # -- events -----------------------------------------------------------------------------
    def acq_begin(self, who, cp):
        self.pending[who] = cp
        nw = []
        for w in self.worlds:
            nw.extend(dispatch(w.clone(queue=w.queue + ((who, cp, False),)), self.faults))
        self._set(nw)

    def cancel_request(self, who):
        """The scope around `who`'s pending acquire was cancelled now."""
        if who not in self.pending:
            return None
        self.pending[who] = True
        nw = []
        state = None
        for w in self.worlds:
            q = []
            for e in w.queue:
                if e[0] == who and not e[2]:
                    q.append((who, True, False))
                    state = "waiting"
                else:
                    if e[0] == who:
                        state = state or "granted"
                    q.append(e)
            nw.append(w.clone(queue=tuple(q)))
        self._set(nw)
        return state

    def acq_end(self, who, ok):
        """Returns None if some world explains the outcome, else a description."""
        self.pending.pop(who, None)
        nw = []
        for w in self.worlds:
            ent = None
            for i, e in enumerate(w.queue):
                if e[0] == who:
                    ent = (i, e)
                    break
            if ok:
                if ent is None or not ent[1][2]:
                    continue            # no permit for it in this world
                i = ent[0]
                nw.append(w.clone(queue=w.queue[:i] + w.queue[i + 1:]))
            else:
                if ent is None:
                    nw.append(w)
                    continue
                i, e = ent
                w2 = w.clone(queue=w.queue[:i] + w.queue[i + 1:])
                if e[2]:
                    nw.extend(dispatch(w2._give(who), self.faults))
                else:
                    nw.append(w2)
        if not nw:
            return "acquire returned normally to %r although no permit could have been granted to it" % (who,)
        self._set(nw)
        return None

    def nowait(self, who, ok):
        nw = []
        for w in self.worlds:
            can = w.free() > 0 and not any(not e[2] for e in w.queue)
            if self.kind == "sem":
                can = w.free() > 0
            if ok and can:
                nw.append(w._take(who))
            elif not ok and not can:
                nw.append(w)
        if not nw:
            return ("acquire_nowait %s although %s" % ("succeeded" if ok else "raised WouldBlock",
                                                      "no permit was free (or a waiter was queued)" if ok
                                                      else "a permit was free and nobody was queued"))
        self._set(nw)
        return None

    def release(self, who):
        nw = []
        for w in self.worlds:
            nw.extend(dispatch(w._give(who), self.faults))
        self._set(nw)

    def sem_release_allowed(self):
        """True/False if all worlds agree, None otherwise."""
        r = {(w.maxv is None or w.value < w.maxv) for w in self.worlds}
        return r.pop() if len(r) == 1 else None

    def set_total(self, v):
        nw = []
        for w in self.worlds:
            nw.extend(dispatch(w.clone(total=v), self.faults))
        self._set(nw)

    def observe(self, pred):
        """Keep the worlds for which pred(world) holds; returns False if none is left."""
        nw = [w for w in self.worlds if pred(w)]
        if not nw:
            return False
        self.worlds = nw
        return True


# ------------------------------------------------------------------------------------------
# generator
# ------------------------------------------------------------------------------------------
def gen_case(seed, tier, prop):
    rng = random.Random(seed)
    big = tier == "thorough"
    if prop == "C09":
        kind = rng.choice(["lock", "lock_fast"])
        cap = 1
        maxv = None
    else:
        kind = rng.choice(["sem", "sem_fast", "lim", "lim", "lim"])
        if kind == "lim":
            cap = rng.choice([1, 1, 2, 2, 3, "inf", 0])
            maxv = None
        else:
            cap = rng.choice([0, 1, 1, 2, 3])
            maxv = rng.choice([None, None, cap, cap + 1])
    ntasks = rng.randint(2, 8 if big else 5)
    nseg = [0]
    native = rng.random() < 0.3      # this case also uses native asyncio Task.cancel() on whole tasks
    borrowers = ["b%d" % i for i in range(rng.randint(1, 3))]

    def inner(tid):
        out = []
        for _ in range(rng.randint(1, 7 if big else 5)):
            r = rng.random()
            if r < 0.30:
                if kind == "lim" and rng.random() < 0.3:
                    out.append(["acq_for", rng.choice(borrowers)])
                else:
                    out.append(["acq"])
            elif r < 0.40:
                if kind == "lim" and rng.random() < 0.3:
                    out.append(["acq_for_nw", rng.choice(borrowers)])
                else:
                    out.append(["acq_nw"])
            elif r < 0.62:
                if kind == "lim" and rng.random() < 0.3:
                    out.append(["rel_for", rng.choice(borrowers)])
                else:
                    out.append(["rel"])
            elif r < 0.78:
                out.append(["sleep", rng.choice(DUR)])
            elif r < 0.84:
                out.append(["cp"])
            elif r < 0.93 and nseg[0]:
                if native and rng.random() < 0.3:
                    out.append(["ncancel", rng.randint(0, ntasks - 1)])
                else:
                    out.append(["cancel", rng.randint(0, nseg[0] + 2)])
            elif kind == "lim":
                out.append(["total", rng.choice([0, 0, 1, 2, 3, "inf"])])
            elif kind.startswith("sem") and rng.random() < 0.5 and not (native and maxv is not None):
                # (with a max_value, an extra release lets two in-flight acquires own more permits than max_value
                # admits; the give-back of a natively cancelled one is then refused - a consequence of the misuse,
                # not something the statement covers)
                out.append(["rel_extra"])
            else:
                out.append(["cp"])
        return out

    tasks = []
    for tid in range(ntasks):
        segs = []
        for _ in range(rng.randint(1, 4 if big else 3)):
            sid = nseg[0]
            nseg[0] += 1
            segs.append(["seg", sid, inner(tid)])
        tasks.append(segs)
    ext = []
    for _ in range(rng.randint(0, 6)):
        t = rng.choice([0, 0.125, 0.125, 0.25, 0.25, 0.375, 0.5, 0.625, 0.75, 1.0])
        if kind == "lim" and rng.random() < 0.35:
            ext.append([t, "total", rng.choice([0, 1, 1, 2, 3, "inf"])])
        elif native and rng.random() < 0.35:
            ext.append([t, "ncancel", rng.randint(0, ntasks - 1)])
        else:
            ext.append([t, "cancel", rng.randint(0, max(0, nseg[0] - 1))])
    ext.sort(key=lambda e: e[0])
    loop = LoopConfig(eager=rng.random() < 0.3, cap=6000,
                      p_late=rng.choice([0, 0, 0.2]), p_stall=rng.choice([0, 0, 0.05])).to_json()
    return {"engine": "permits", "prop": prop, "kind": kind, "cap": cap, "maxv": maxv, "tasks": tasks,
            "ext": ext, "loop": loop, "sched_seed": rng.getrandbits(32),
            "cm": rng.random() < 0.3,           # enter/leave through __aenter__/__aexit__ (async with) instead of acquire/release
            "outside": rng.random() < 0.2}      # the primitive is created before the event loop exists (adapter classes)


# ------------------------------------------------------------------------------------------
# interpreter + oracle
# ------------------------------------------------------------------------------------------
class PermitRun:
    def __init__(self, case):
        self.case = case
        self.prop = case["prop"]
        self.kind = case["kind"]
        self.base = "lock" if self.kind.startswith("lock") else "sem" if self.kind.startswith("sem") else "lim"
        self.sim = SimRun(case["sched_seed"], LoopConfig.from_json(case["loop"]))
        self.h = History()
        self.viol = []
        self.faults = self.sim.faults
        self.probes = {}
        self.scopes = {}         # sid -> CancelScope (active segments)
        self.seg_task = {}       # sid -> tid
        self.in_acquire = {}     # tid -> who (pending blocking acquire)
        self.seg_cancelled = set()
        self.ncancelled = set()
        self.holding = {}        # who -> tid  (definite holders: returned from acquire / nowait)
        self.sem_held = {}       # tid -> count
        self.model = None
        self.prim = None
        self.task_obj = {}
        self.nontrivial = False

    # -- violations ---------------------------------------------------------------------------
    def v(self, rule, detail, sig=None):
        if len(self.viol) < 10:
            rid = f"{self.prop}.{rule}"
            self.viol.append({"rule": rid, "sig": sig or f"{rid}:{self.kind}",
                              "detail": f"[{self.kind} cap={self.case['cap']}] {detail} (seq={self.h.seq}, "
                                        f"iteration={self.sim.loop.iterations if self.sim.loop else '?'})"})

    # -- observation of the real object against the worlds ------------------------------------------
    def observe(self, where):
        m = self.model
        if m.inconclusive:
            return
        p = self.prim
        before = m.summary()
        if self.base == "lock":
            locked = p.locked()
            st = p.statistics()
            if st.locked != locked:
                self.v("stats", f"statistics().locked={st.locked} but locked()={locked}")
            ok = m.observe(lambda w: (w.used() == 1) == locked)
            what = f"locked()={locked}"
            if len(self.holding) == 1 and locked and not m.pending:
                # a definite holder and nobody in transit: statistics() must name that task as the owner
                (who, htid), = self.holding.items()
                t = self.task_obj.get(htid)
                if t is not None and (st.owner is None or st.owner.id != id(t)):
                    self.v("owner", f"{where}: task {htid} holds the lock but statistics().owner is {st.owner}")
            waiting = st.tasks_waiting
        elif self.base == "sem":
            val = p.value
            ok = m.observe(lambda w: w.value == val)
            what = f"value={val}"
            waiting = p.statistics().tasks_waiting
        else:
            b = p.borrowed_tokens
            tot = p.total_tokens
            av = p.available_tokens
            st = p.statistics()
            if st.borrowed_tokens != b or st.total_tokens != tot or av != tot - b or len(st.borrowers) != b:
                self.v("stats", f"inconsistent report: borrowed={b} total={tot} available={av} statistics={st}")
            ok = m.observe(lambda w: w.used() == b and w.total == tot)
            what = f"borrowed_tokens={b} total_tokens={tot}"
            waiting = st.tasks_waiting
        if not ok:
            self.v("counts", f"{where}: the primitive reports {what}, which no state of the reference "
                             f"automaton explains; automaton before: {before}")
            m.inconclusive = True
            return
        npend = len(m.pending)
        lo = min(sum(1 for e in w.queue if not e[2] and not e[1]) for w in m.worlds)
        if not (lo <= waiting <= npend):
            self.v("waiting", f"{where}: statistics().tasks_waiting={waiting} but live ungranted waiters>={lo} and "
                              f"pending acquire calls={npend}; automaton: {m.summary()}")
        if self.base == "lock" and len([1 for who in self.holding]) > 1:
            self.v("mutex", f"{where}: more than one holder: {sorted(self.holding)}")

    def rec(self, *f):
        return self.h.rec(*f)

    # -- program -----------------------------------------------------------------------------------
    def make_prim(self):
        case = self.case
        cap = INF if case["cap"] == "inf" else case["cap"]
        if self.base == "lock":
            return Lock(fast_acquire=self.kind == "lock_fast")
        if self.base == "sem":
            return Semaphore(cap, max_value=case["maxv"], fast_acquire=self.kind == "sem_fast")
        if case.get("outside") and case["sched_seed"] % 2:
            # adapter only: the total is assigned while no event loop exists yet and must be what the real limiter gets
            lim = CapacityLimiter(1 if cap != 1 else 2)
            lim.total_tokens = cap
            return lim
        return CapacityLimiter(cap)

    async def main(self):
        self.h.loop = loop = self.sim.loop
        case = self.case
        cap = INF if case["cap"] == "inf" else case["cap"]
        if self.pre_prim is not None:
            # created before the event loop existed: anyio hands out an *Adapter object that builds the real
            # primitive on first use inside the loop
            self.prim = self.pre_prim
            self.probes["primitive_created_outside_the_loop:" + type(self.prim).__name__] = 1
        else:
            self.prim = self.make_prim()
        if self.base == "lock":
            self.model = Model("lock", 1, None, self.faults)
        elif self.base == "sem":
            self.model = Model("sem", cap, case["maxv"], self.faults)
        else:
            self.model = Model("lim", cap, None, self.faults)
        self.ntasks_done = 0
        for t, what, arg in case["ext"]:
            if what == "cancel":
                loop.call_external_at(t, self.do_cancel, "ext", arg)
            elif what == "ncancel":
                loop.call_external_at(t, self.do_ncancel, "ext", arg)
            else:
                loop.call_external_at(t, self.do_total, "ext", arg)
        self.janitor_handle = loop.call_at(8.0, self.janitor)
        async with create_task_group() as tg:
            for tid, segs in enumerate(case["tasks"]):
                tg.start_soon(self.task, tid, segs, name=f"t{tid}")
        self.janitor_handle.cancel()
        self.observe("end")
        self.final_checks()

    def janitor(self):
        # termination discipline: restore the limiter's capacity and cancel whatever still waits
        if self.base == "lim":
            self.do_total("janitor", self.case["cap"])
        for sid in sorted(self.scopes):
            self.do_cancel("janitor", sid)
        self.janitor_handle = self.sim.loop.call_at(self.sim.loop.time() + 1.0, self.janitor)

    def do_cancel(self, by, sid):
        sc = self.scopes.get(sid)
        if sc is None or sid in self.seg_cancelled:
            return
        self.observe("before cancel")
        tid = self.seg_task[sid]
        self.seg_cancelled.add(sid)
        who = self.in_acquire.get(tid)
        self.rec("cancel", by, sid, tid)
        sc.cancel()
        if who is not None:
            st = self.model.cancel_request(who)
            if st == "waiting":
                self.faults["cancel_waiter"] += 1
                self.nontrivial = True
            elif st == "granted":
                self.faults["cancel_granted"] += 1
                self.nontrivial = True
        elif by != "janitor":
            self.faults["cancel_other"] += 1
        self.observe("after cancel")

    def do_ncancel(self, by, tid):
        """Native asyncio cancellation of a whole task (as asyncio.timeout / wait_for / a foreign framework would do).
        Unlike a scope cancellation it also reaches a waiter that has already been handed the permit: that waiter's
        acquire() then raises and the permit must be passed on."""
        t = self.task_obj.get(tid)
        if t is None or t.done() or tid == by or tid in self.ncancelled:
            return
        self.observe("before native cancel")
        self.ncancelled.add(tid)
        who = self.in_acquire.get(tid)
        self.rec("native_cancel", by, tid)
        t.cancel()
        if who is not None:
            st = self.model.cancel_request(who)
            if st == "waiting":
                self.faults["native_cancel_waiter"] += 1
                self.nontrivial = True
            elif st == "granted":
                self.faults["native_cancel_granted"] += 1
                self.nontrivial = True
        else:
            self.faults["native_cancel_other"] += 1
        self.observe("after native cancel")

    def do_total(self, by, v):
        if self.base != "lim":
            return
        self.observe("before total_tokens")
        val = INF if v == "inf" else v
        used = self.prim.borrowed_tokens
        waiting = self.prim.statistics().tasks_waiting
        self.rec("total", by, v)
        self.prim.total_tokens = val
        self.model.set_total(val)
        if by != "janitor":
            self.faults["limiter_resize"] += 1
            if val < used:
                self.faults["resize_below_borrowed"] += 1
            if waiting:
                self.faults["resize_with_waiters"] += 1
                self.nontrivial = True
        self.observe("after total_tokens")

    async def task(self, tid, segs):
        import asyncio
        self.task_obj[tid] = asyncio.current_task()
        try:
            for _, sid, inner in segs:
                sc = CancelScope()
                self.scopes[sid] = sc
                self.seg_task[sid] = tid
                try:
                    with sc:
                        await self.run_inner(tid, sid, inner)
                finally:
                    self.scopes.pop(sid, None)
        except asyncio.CancelledError:
            # a native cancellation ends this task only: it is absorbed here so that the enclosing task group
            # (which would otherwise cancel all the siblings through a scope the harness does not track) is unaffected
            if tid not in self.ncancelled:
                raise
        finally:
            # every holder releases (termination discipline)
            self.release_all(tid)

    def release_all(self, tid):
        for who in [w for w, t in self.holding.items() if t == tid]:
            self.do_release(tid, who, behalf=who.startswith("b"), final=True)
        while self.sem_held.get(tid):
            self.do_release(tid, None, final=True)

    def holds_any(self, tid):
        return bool(self.sem_held.get(tid)) or any(t == tid for t in self.holding.values())

    async def run_inner(self, tid, sid, inner):
        for st in inner:
            op = st[0]
            if op == "sleep":
                await sleep(st[1])
            elif op == "cp":
                await checkpoint()
            elif op == "cancel":
                self.do_cancel(tid, st[1])
            elif op == "ncancel":
                self.do_ncancel(tid, st[1])
            elif op == "total":
                self.do_total(tid, st[1])
            elif op in ("acq", "acq_for"):
                await self.do_acquire(tid, sid, ("T%d" % tid) if op == "acq" else st[1], op == "acq_for")
            elif op in ("acq_nw", "acq_for_nw"):
                self.do_nowait(tid, ("T%d" % tid) if op == "acq_nw" else st[1], op == "acq_for_nw")
            elif op in ("rel", "rel_for"):
                self.do_release(tid, ("T%d" % tid) if op == "rel" else st[1], behalf=op == "rel_for")
            elif op == "rel_extra":
                self.do_release(tid, None, extra=True)

    async def enter(self, p):
        """acquire(), or - in cases flagged `cm` - what `async with p:` does on entry"""
        if self.case.get("cm"):
            await p.__aenter__()
        else:
            await p.acquire()

    def leave(self, p):
        """release(), or - in cases flagged `cm` - what `async with p:` does on exit (the coroutine is driven by hand:
        leaving the block releases without waiting)"""
        if not self.case.get("cm"):
            p.release()
            return
        coro = p.__aexit__(None, None, None)
        try:
            coro.send(None)
        except StopIteration:
            return
        coro.close()
        raise AssertionError("__aexit__ of a synchronisation primitive suspended")

    def who_obj(self, who):
        return who   # borrower tokens are plain strings; tasks borrow as themselves

    async def do_acquire(self, tid, sid, who, behalf):
        p = self.prim
        base = self.base
        owns = who in self.holding if base != "sem" else False
        if base != "sem" and (owns or (behalf and who in self.model.pending)):
            if not owns:
                return           # never two pending acquires for one borrower (outside the statement)
            # misuse: acquiring what is already held must be refused
            self.observe("before re-acquire")
            try:
                if behalf:
                    await p.acquire_on_behalf_of(who)
                else:
                    await self.enter(p)
            except RuntimeError:
                self.rec("reacquire_refused", tid, who)
                self.probes["reacquire_refused"] = self.probes.get("reacquire_refused", 0) + 1
                return
            except get_cancelled_exc_class():
                raise
            self.v("misuse", f"task {tid} acquired {who!r} a second time without an error")
            return
        if self.holds_any(tid):
            return               # no hold-and-wait: generated programs must terminate
        if base == "lim" and not behalf and self.holding.get(who) is not None:
            return
        self.observe("before acquire")
        cp = sid in self.seg_cancelled
        self.in_acquire[tid] = who
        self.rec("acq_begin", tid, who, cp)
        self.model.acq_begin(who, cp)
        try:
            if behalf:
                await p.acquire_on_behalf_of(who)
            else:
                await self.enter(p)
        except Exception as exc:
            del self.in_acquire[tid]
            self.model.acq_end(who, False)
            self.v("error", f"legitimate acquire for {who!r} raised {exc!r}")
            self.model.inconclusive = True
            return
        except get_cancelled_exc_class():
            del self.in_acquire[tid]
            self.rec("acq_end", tid, who, "cancelled")
            self.model.acq_end(who, False)
            self.observe("after cancelled acquire")
            raise
        del self.in_acquire[tid]
        self.rec("acq_end", tid, who, "ok")
        err = self.model.acq_end(who, True)
        if err:
            self.v("grant", err + "; automaton: " + self.model.summary())
            self.model.inconclusive = True
        if base == "sem":
            self.sem_held[tid] = self.sem_held.get(tid, 0) + 1
        else:
            if who in self.holding:
                self.v("mutex", f"{who!r} granted while already held by task {self.holding[who]}")
            self.holding[who] = tid
        self.observe("after acquire")

    def do_nowait(self, tid, who, behalf):
        p = self.prim
        base = self.base
        if behalf and who in self.model.pending:
            return
        self.observe("before acquire_nowait")
        owns = base != "sem" and who in self.holding
        try:
            if behalf:
                p.acquire_on_behalf_of_nowait(who)
            else:
                p.acquire_nowait()
        except WouldBlock:
            if owns:
                self.v("misuse", f"acquire_nowait by holder {who!r} raised WouldBlock instead of RuntimeError")
                return
            self.rec("nowait", tid, who, "wouldblock")
            err = self.model.nowait(who, False)
        except RuntimeError:
            if not owns:
                self.v("misuse", f"acquire_nowait by non-holder {who!r} raised RuntimeError")
            else:
                self.probes["reacquire_refused"] = self.probes.get("reacquire_refused", 0) + 1
            self.rec("nowait", tid, who, "refused")
            return
        else:
            if owns:
                self.v("misuse", f"{who!r} acquired a second time via acquire_nowait without an error")
                return
            self.rec("nowait", tid, who, "ok")
            err = self.model.nowait(who, True)
            if base == "sem":
                self.sem_held[tid] = self.sem_held.get(tid, 0) + 1
            else:
                self.holding[who] = tid
        if err:
            self.v("nowait", err + "; automaton: " + self.model.summary())
            self.model.inconclusive = True
        self.observe("after acquire_nowait")

    def do_release(self, tid, who, behalf=False, extra=False, final=False):
        p = self.prim
        base = self.base
        self.observe("before release")
        if base == "sem":
            held = self.sem_held.get(tid, 0)
            if not held and not extra:
                return
            allowed = self.model.sem_release_allowed()
            try:
                self.leave(p)
            except ValueError:
                if allowed is True:
                    self.v("misuse", "release() raised ValueError although value < max_value")
                self.rec("release_refused", tid)
                self.probes["release_beyond_max_refused"] = self.probes.get("release_beyond_max_refused", 0) + 1
                if held and not extra:
                    self.sem_held[tid] = held - 1     # its permit was cancelled out by an earlier extra release
                return
            if allowed is False:
                self.v("misuse", f"release() beyond max_value={self.case['maxv']} was accepted")
                self.model.inconclusive = True
                if held and not extra:
                    self.sem_held[tid] = held - 1
                return
            if held and not extra:
                self.sem_held[tid] = held - 1
            else:
                self.faults["extra_release"] += 1
            self.rec("release", tid)
            self.model.release(None)
            self.observe("after release")
            return
        if who in self.model.pending:
            return           # its acquire call has not returned yet: not generated
        owner_tid = self.holding.get(who)
        legit = owner_tid is not None and (base == "lim" and behalf or owner_tid == tid)
        if base == "lim" and not behalf and owner_tid is not None and owner_tid != tid:
            legit = False
        try:
            if behalf:
                p.release_on_behalf_of(who)
            else:
                self.leave(p)
        except RuntimeError:
            if legit:
                self.v("misuse", f"release of {who!r} by its holder (task {tid}) was refused")
                self.model.inconclusive = True
                del self.holding[who]
            else:
                self.rec("release_refused", tid, who)
                self.probes["bad_release_refused"] = self.probes.get("bad_release_refused", 0) + 1
            return
        if not legit:
            self.v("misuse", f"release of {who!r} by task {tid}, which does not hold it, was accepted")
            self.model.inconclusive = True
            return
        del self.holding[who]
        self.rec("release", tid, who)
        self.model.release(who)
        self.observe("after release")

    def final_checks(self):
        p = self.prim
        m = self.model
        if self.base == "lock":
            st = p.statistics()
            if p.locked() or st.tasks_waiting or st.owner is not None:
                self.v("endstate", f"after every holder released: locked={p.locked()} statistics={st}")
        elif self.base == "sem":
            exp = {w.value for w in m.worlds}
            if not m.inconclusive and (p.value not in exp or p.statistics().tasks_waiting):
                self.v("endstate", f"after everyone released: value={p.value} expected {sorted(exp)} "
                                   f"waiting={p.statistics().tasks_waiting}")
        else:
            st = p.statistics()
            if p.borrowed_tokens or st.tasks_waiting or st.borrowers:
                self.v("endstate", f"after everyone released: {st}")

    def execute(self):
        sim = self.sim
        self.pre_prim = self.make_prim() if self.case.get("outside") else None
        sim.run(self.main)
        if sim.outcome == "deadlock":
            self.v("stuck", f"would block forever: {sim.error}; pending acquires={sorted(self.model.pending) if self.model else None}")
        elif sim.outcome == "itercap":
            self.v("stuck", f"iteration cap: {sim.error}")
        elif sim.outcome == "exc":
            import traceback
            tb = "".join(traceback.format_exception(sim.error))[-1500:]
            self.v("error", f"unexpected exception out of legitimate API use: {sim.error!r}\n{tb}")
        loop = sim.loop
        return {"violations": self.viol, "digest": self.h.digest(), "faults": dict(self.faults),
                "nontrivial": self.nontrivial, "vtime": loop._vnow if loop else 0.0,
                "iters": loop.iterations if loop else 0, "steps": self.h.seq, "probes": self.probes,
                "cfg": [self.kind + ("+eager" if self.case["loop"]["eager"] else "")],
                "history_text": self.h.text(), "inconclusive": bool(self.model and self.model.inconclusive and not self.viol)}


# ------------------------------------------------------------------------------------------
# shrinking
# ------------------------------------------------------------------------------------------
def shrinks(case):
    import copy
    tasks = case["tasks"]
    # drop a whole task
    for i in range(len(tasks)):
        if len(tasks) > 1:
            c = copy.deepcopy(case)
            del c["tasks"][i]
            yield c
    # drop externals
    for i in range(len(case["ext"])):
        c = copy.deepcopy(case)
        del c["ext"][i]
        yield c
    # drop a segment
    for i, segs in enumerate(tasks):
        for j in range(len(segs)):
            if len(segs) > 1:
                c = copy.deepcopy(case)
                del c["tasks"][i][j]
                yield c
    # drop a statement
    for i, segs in enumerate(tasks):
        for j, seg in enumerate(segs):
            for k in range(len(seg[2])):
                c = copy.deepcopy(case)
                del c["tasks"][i][j][2][k]
                yield c
    # simplify
    for i, segs in enumerate(tasks):
        for j, seg in enumerate(segs):
            for k, st in enumerate(seg[2]):
                if st[0] == "sleep" and st[1] != 0:
                    c = copy.deepcopy(case)
                    c["tasks"][i][j][2][k] = ["sleep", 0]
                    yield c
    lp = case["loop"]
    for key, val in (("eager", False), ("p_late", 0), ("p_stall", 0)):
        if lp.get(key):
            c = copy.deepcopy(case)
            c["loop"][key] = val
            yield c


class PermitCheck:
    engine = "sync"
    level = "exploration"
    components = {
        "real": ["anyio Lock/Semaphore/CapacityLimiter (asyncio backend)", "anyio CancelScope/TaskGroup",
                 "asyncio Task/Future machinery"],
        "stub": ["event loop scheduling and clock (SimLoop: virtual time, seeded timer ties / late wake-ups / stalls / "
                 "external callback positions)", "set iteration order inside anyio (SimSet, seeded)"],
    }
    assumptions = [
        "asyncio backend only (trio not installed); uvloop not simulated",
        "call_soon is FIFO (documented); the simulator never reorders the ready queue",
        "reference automaton: FIFO permit queue, grants at the instant of release/resize, a waiter with a pending "
        "cancellation leaves the queue at an unspecified instant between the cancel request and its unwinding",
        "two concurrent pending acquires on behalf of the same borrower are not generated (outside the statement)",
    ]
    fault_kinds = ["cancel_waiter", "cancel_granted", "cancel_other", "limiter_resize", "resize_below_borrowed",
                   "resize_with_waiters", "extra_release", "timer_tie", "late_wakeup", "stall", "external_cb",
                   "set_order", "world_branch"]

    def __init__(self, prop):
        self.prop = prop
        self.fault_kinds = [k for k in self.fault_kinds if prop == "C10" or k not in (
            "limiter_resize", "resize_below_borrowed", "resize_with_waiters", "extra_release", "set_order")]
        self.fault_kinds += ["native_cancel_waiter", "native_cancel_granted", "native_cancel_other"]
        self.budgets = {"quick": (500_000, 90), "thorough": (20_000_000, 1500)}
        self.rule_text = (
            "cases = seeded programs (2-5/8 tasks x 1-3/4 cancellable segments x 1-5/7 statements over acquire, "
            "acquire_nowait, release, on-behalf-of variants, sleep, checkpoint, cancel(segment), total_tokens:=v) + "
            "external cancel/resize callbacks at seeded virtual times and ready-queue positions, on lock/lock_fast "
            "(C09) or sem/sem_fast/limiter (C10), stock or eager task factory; distinct = SHA1 of the full event "
            "history (operation, task, outcome, loop iteration, virtual time); non-trivial = at least one cancel "
            "request landed on a task blocked in acquire (waiting or already granted) or total_tokens was assigned "
            "while tasks were queued")

    def bounds(self, tier):
        big = tier == "thorough"
        return {"tasks": [2, 8 if big else 5], "segments_per_task": [1, 4 if big else 3],
                "statements_per_segment": [1, 7 if big else 5], "external_actions": [0, 6],
                "capacities": "lock:1; sem:0..3 (max_value none/cap/cap+1); limiter: 0,1,2,3,inf",
                "iteration_cap": 6000, "max_worlds": MAX_WORLDS}

    def gen_case(self, seed, tier):
        return gen_case(seed, tier, self.prop)

    def run_case(self, case):
        return PermitRun(case).execute()

    def shrinks(self, case):
        return shrinks(case)
