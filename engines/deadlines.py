"""Engine SC/deadlines (C06): deadline scopes against a discrete-event reference interpreter.

Programs: 1-4 independent tasks, each a nest of deadline scopes (CancelScope(deadline=), move_on_after/at,
fail_after/at, shields, past deadlines), sleeps, `deadline :=` statements (earlier / later / infinity /
past) and current_effective_deadline() probes.  A reference interpreter predicts from the program alone
which sleep is interrupted and when, which scope absorbs, every cancelled_caught, every TimeoutError and
every probe value.  Sub-mode *exact* (no late wake-ups): the observed virtual times must equal the
predicted ones.  Sub-mode *late* (seeded late wake-ups: the clock lands after the timer it jumped to, so several
deadlines may be overdue at once): decisions must still follow the nominal deadlines, nothing may happen early, and the reference re-synchronises its clock with the
observed one after every sleep.  A sleep whose end coincides exactly with a visible deadline is a legal
tie (both timers fall due in the same cycle in unspecified order): the reference follows the observed
outcome at exactly these points and nowhere else.
"""
from __future__ import annotations

import copy
import math
import random

from simkit.harness import History, LoopConfig, SimRun, anyio

from anyio import (CancelScope, create_task_group, current_effective_deadline, current_time, fail_after, fail_at,
                   get_cancelled_exc_class, move_on_after, move_on_at, sleep)

INF = math.inf
DUR = [0, 0.125, 0.25, 0.375, 0.5, 0.75, 1.0]
DELAYS = [None, -0.125, 0, 0.125, 0.25, 0.5, 0.75, 1.0, 2.0]


def gen_prog(rng, depth, budget, maxdepth):
    out = []
    for _ in range(rng.randint(1, 4)):
        if budget[0] <= 0:
            break
        budget[0] -= 1
        r = rng.random()
        if r < 0.35:
            out.append(["sleep", rng.choice(DUR)])
        elif r < 0.45:
            out.append(["probe"])
        elif r < 0.80 and depth < maxdepth:
            kind = rng.choice(["move_on_after", "fail_after", "scope", "move_on_at", "fail_at"])
            out.append(["scope", kind, rng.choice(DELAYS), rng.random() < 0.25, gen_prog(rng, depth + 1, budget, maxdepth)])
        elif depth > 0:
            out.append(["setdl", rng.randint(0, depth - 1), rng.choice([None, -0.125, 0, 0.125, 0.25, 0.5, 1.0])])
    return out


def gen_case(seed, tier, prop="C06"):
    rng = random.Random(seed)
    big = tier == "thorough"
    late = rng.random() < 0.4
    ntasks = rng.choice([1, 1, 2, 3, 4] if big else [1, 1, 2, 3])
    tasks = [gen_prog(rng, 0, [rng.randint(6, 22 if big else 16)], 5 if big else 4) for _ in range(ntasks)]
    loop = LoopConfig(eager=rng.random() < 0.25, cap=6000, p_late=rng.choice([0.2, 0.5]) if late else 0,
                      p_stall=0).to_json()
    return {"engine": "deadlines", "prop": "C06", "tasks": tasks, "late": late, "loop": loop,
            "sched_seed": rng.getrandbits(32)}


class _Timeout(Exception):
    pass


class _Cancel(Exception):
    pass


def reference(prog, obs):
    """obs: iterator over the observed sleep results [(outcome, time)], consulted for ties and for clock
    re-synchronisation; returns (events, problems)."""
    ev = []
    problems = []
    now = [0.0]
    stack = []
    obs = list(obs)
    idx = [0]

    def refresh():
        for s in stack:
            if not s["cancelled"] and s["deadline"] <= now[0]:
                s["cancelled"] = True

    def visible():
        vis = []
        for s in reversed(stack):
            vis.append(s)
            if s["shield"]:
                break
        return vis

    def eff_deadline():
        d = INF
        for s in reversed(stack):
            d = min(d, s["deadline"])
            if s["cancelled"]:
                return -INF
            if s["shield"]:
                break
        return d

    def next_obs():
        if idx[0] < len(obs):
            o = obs[idx[0]]
            idx[0] += 1
            return o
        return None

    def run(body):
        for st in body:
            k = st[0]
            if k == "probe":
                refresh()
                ev.append(("probe", now[0], eff_deadline()))
            elif k == "setdl":
                if st[1] < len(stack):
                    s = stack[st[1]]
                    if s["kind"].startswith("fail") and s["cancelled"]:
                        continue        # excluded by the statement: reassignment after the deadline fired
                    s["deadline"] = INF if st[2] is None else now[0] + st[2]
                    refresh()
            elif k == "sleep":
                d = st[1]
                refresh()
                o = next_obs()
                vis = visible()
                if any(s["cancelled"] for s in vis):
                    ev.append(("nominal", now[0]))
                    if o is not None:
                        if o[1] < now[0]:
                            problems.append(f"clock went backwards: {o[1]} < {now[0]}")
                        now[0] = max(now[0], o[1])
                    refresh()
                    ev.append(("sleep-cancelled", now[0]))
                    raise _Cancel()
                t_int = min([s["deadline"] for s in vis] + [INF])
                end = now[0] + d
                tie = t_int == end
                if t_int < end or (tie and o is not None and o[0] == "cancelled"):
                    nominal = max(now[0], t_int)
                    if o is not None and o[0] == "cancelled" and o[1] < nominal:
                        problems.append(f"sleep({d}) was interrupted at t={o[1]}, before the deadline {nominal}")
                    now[0] = max(nominal, o[1]) if o is not None else nominal
                    ev.append(("nominal", nominal))
                    refresh()
                    ev.append(("sleep-cancelled", now[0]))
                    raise _Cancel()
                if o is not None and o[0] == "ok" and o[1] < end:
                    problems.append(f"sleep({d}) returned at t={o[1]}, before {end}")
                ev.append(("nominal", end))
                now[0] = max(end, o[1]) if o is not None else end
                refresh()
                ev.append(("sleep-ok", now[0]))
            elif k == "scope":
                _, kind, delay, shield, body2 = st
                dl = INF if delay is None else now[0] + delay
                s = dict(deadline=dl, shield=shield, cancelled=False, kind=kind)
                stack.append(s)
                refresh()
                caught = False
                try:
                    run(body2)
                except _Cancel:
                    refresh()
                    stack.pop()
                    parent_vis = False
                    if not s["shield"]:
                        for p in reversed(stack):
                            if p["cancelled"]:
                                parent_vis = True
                                break
                            if p["shield"]:
                                break
                    if s["cancelled"] and not parent_vis:
                        caught = True
                    else:
                        ev.append(("exit", kind, False))
                        raise
                else:
                    refresh()
                    stack.pop()
                ev.append(("exit", kind, caught))
                if kind.startswith("fail") and caught and now[0] >= s["deadline"]:
                    ev.append(("timeout", now[0]))
                    raise _Timeout()

    try:
        run(prog)
        ev.append(("end", "ok"))
    except _Timeout:
        ev.append(("end", "timeout"))
    except _Cancel:
        ev.append(("end", "cancelled"))
    return ev, problems


class DeadlineRun:
    def __init__(self, case):
        self.case = case
        self.sim = SimRun(case["sched_seed"], LoopConfig.from_json(case["loop"]))
        self.faults = self.sim.faults
        self.h = History()
        self.viol = []
        self.probes = {}
        self.results = []
        self.exited = []
        self.nontrivial = False

    def v(self, rule, detail):
        if len(self.viol) < 8:
            self.viol.append({"rule": "C06." + rule, "sig": "C06." + rule, "detail": detail})

    async def run_task(self, ti, prog):
        ev = []
        sleeps = []
        stack = []
        reported = set()
        t0 = current_time()
        Cancelled = get_cancelled_exc_class()

        async def run(body):
            for st in body:
                k = st[0]
                if k == "probe":
                    d = current_effective_deadline()
                    ev.append(("probe", current_time() - t0, d - t0 if abs(d) != INF else d))
                elif k == "setdl":
                    if st[1] < len(stack):
                        kind, sc = stack[st[1]]
                        if kind.startswith("fail") and sc.cancel_called:
                            continue
                        sc.deadline = INF if st[2] is None else current_time() + st[2]
                        self.faults["deadline_move"] += 1
                elif k == "sleep":
                    self.h.rec("sleep", ti, st[1])
                    try:
                        await sleep(st[1])
                    except Cancelled:
                        t = current_time() - t0
                        ev.append(("sleep-cancelled", t))
                        sleeps.append(("cancelled", t))
                        self.h.rec("sleep-cancelled", ti)
                        self.faults["deadline_fire"] += 1
                        raise
                    t = current_time() - t0
                    ev.append(("sleep-ok", t))
                    sleeps.append(("ok", t))
                    self.h.rec("sleep-ok", ti)
                elif k == "scope":
                    _, kind, delay, shield, body2 = st
                    now = current_time()
                    if kind == "move_on_after":
                        cm = move_on_after(delay, shield=shield)
                    elif kind == "fail_after":
                        cm = fail_after(delay, shield=shield)
                    elif kind == "scope":
                        if delay is not None and len(stack) % 2:
                            # the deadline is assigned through the property before the scope is entered
                            cm = CancelScope(shield=shield)
                            cm.deadline = now + delay
                        else:
                            cm = CancelScope(deadline=INF if delay is None else now + delay, shield=shield)
                    elif kind == "move_on_at":
                        cm = move_on_at(None if delay is None else now + delay, shield=shield)
                    else:
                        cm = fail_at(None if delay is None else now + delay, shield=shield)
                    sc = None
                    try:
                        with cm as sc:
                            stack.append((kind, sc))
                            try:
                                await run(body2)
                            finally:
                                stack.pop()
                    except TimeoutError:
                        if sc is not None and sc.cancelled_caught and kind.startswith("fail") and id(sc) not in reported:
                            reported.add(id(sc))
                            ev.append(("exit", kind, True))
                            ev.append(("timeout", current_time() - t0))
                            self.h.rec("timeout", ti, kind)
                        raise
                    except Cancelled:
                        ev.append(("exit", kind, sc.cancelled_caught))
                        self.h.rec("exit-cancelled", ti, kind)
                        self.exited.append((ti, kind, sc, sc.cancel_called, current_time() - t0))
                        raise
                    ev.append(("exit", kind, sc.cancelled_caught))
                    self.h.rec("exit", ti, kind, sc.cancelled_caught)
                    self.exited.append((ti, kind, sc, sc.cancel_called, current_time() - t0))

        try:
            await run(prog)
            ev.append(("end", "ok"))
        except TimeoutError:
            ev.append(("end", "timeout"))
        except Cancelled:
            ev.append(("end", "cancelled"))
        self.results.append((ti, prog, ev, sleeps))

    async def main(self):
        self.h.loop = self.sim.loop
        self.t0 = current_time()
        async with create_task_group() as tg:
            for ti, prog in enumerate(self.case["tasks"]):
                tg.start_soon(self.run_task, ti, prog, name=f"t{ti}")
        # "never after the scope was left": wait until every deadline that was ever set lies in the past (they
        # are at most 2 virtual seconds after the statement that set them), then look at the scopes again
        await sleep(3)
        for ti, kind, sc, called, t in self.exited:
            if sc.cancel_called != called:
                self.v("fired_after_exit", f"task {ti}: a {kind} scope left at t={t} with cancel_called={called} reports "
                                           f"cancel_called={sc.cancel_called} later: its deadline fired after the scope was left")
                break

    def execute(self):
        sim = self.sim
        sim.run(self.main)
        exact = not self.case["late"]
        if sim.outcome in ("deadlock", "itercap"):
            self.v("stuck", f"{sim.outcome}: {sim.error}")
        elif sim.outcome == "exc":
            import traceback
            self.v("error", "unexpected exception: " + "".join(traceback.format_exception(sim.error))[-1200:])
        else:
            for ti, prog, got, sleeps in sorted(self.results, key=lambda r: r[0]):
                exp, problems = reference(prog, sleeps)
                nominal = [e for e in exp if e[0] == "nominal"]
                exp = [e for e in exp if e[0] != "nominal"]
                for p in problems:
                    self.v("early", f"task {ti}: {p}; program {prog}")
                if got != exp:
                    k = 0
                    while k < min(len(got), len(exp)) and got[k] == exp[k]:
                        k += 1
                    self.v("mismatch", f"task {ti}: observed history differs from the discrete-event reference at event {k}: "
                                       f"observed {got[k] if k < len(got) else None}, predicted {exp[k] if k < len(exp) else None}; "
                                       f"program {prog}; observed {got}; predicted {exp}")
                if exact:
                    obs_t = [t for _, t in sleeps]
                    nom_t = [n[1] for n in nominal][:len(obs_t)]
                    if obs_t != nom_t:
                        self.v("inexact", f"task {ti}: sleeps ended at {obs_t} but the deadlines/durations give {nom_t} "
                                          f"(no late wake-ups in this run); program {prog}")
                if any(o == "cancelled" for o, _ in sleeps):
                    self.nontrivial = True
                for e in got:
                    if e[0] == "timeout":
                        self.probes["timeout_raised"] = self.probes.get("timeout_raised", 0) + 1
                    elif e[0] == "exit" and e[2]:
                        self.probes["cancelled_caught"] = self.probes.get("cancelled_caught", 0) + 1
                    elif e[0] == "probe":
                        self.probes["effective_deadline_probe"] = self.probes.get("effective_deadline_probe", 0) + 1
        loop = sim.loop
        extra = [r[2] for r in sorted(self.results, key=lambda r: r[0])] if sim.outcome == "ok" else [sim.outcome]
        return {"violations": self.viol, "digest": self.h.digest(extra),
                "faults": dict(self.faults), "nontrivial": self.nontrivial, "vtime": loop._vnow if loop else 0.0,
                "iters": loop.iterations if loop else 0, "steps": self.h.seq, "probes": self.probes,
                "cfg": [("late" if self.case["late"] else "exact") + ("+eager" if self.case["loop"]["eager"] else "")],
                "history_text": self.h.text()}


def _paths(prog, prefix=()):
    for i, st in enumerate(prog):
        yield prefix + (i,), st
        if st[0] == "scope":
            yield from _paths(st[4], prefix + (i, 4))


def _get(prog, path):
    for p in path:
        prog = prog[p]
    return prog


def shrinks(case):
    for i in range(len(case["tasks"])):
        if len(case["tasks"]) > 1:
            c = copy.deepcopy(case)
            del c["tasks"][i]
            yield c
    for ti, prog in enumerate(case["tasks"]):
        paths = sorted(_paths(prog), key=lambda ps: -len(repr(ps[1])))
        for path, st in paths:
            c = copy.deepcopy(case)
            parent = _get(c["tasks"][ti], path[:-1])
            del parent[path[-1]]
            yield c
        for path, st in paths:
            if st[0] == "scope":
                c = copy.deepcopy(case)
                parent = _get(c["tasks"][ti], path[:-1])
                parent[path[-1]:path[-1] + 1] = copy.deepcopy(st[4])
                yield c
                if st[3]:
                    c = copy.deepcopy(case)
                    _get(c["tasks"][ti], path)[3] = False
                    yield c
    if case["late"]:
        c = copy.deepcopy(case)
        c["late"] = False
        c["loop"]["p_late"] = 0
        c["loop"]["p_stall"] = 0
        yield c
    if case["loop"].get("eager"):
        c = copy.deepcopy(case)
        c["loop"]["eager"] = False
        yield c


class DeadlineCheck:
    prop = "C06"
    engine = "sc-deadlines"
    level = "exploration"
    components = {
        "real": ["anyio CancelScope deadlines, move_on_after/at, fail_after/at, current_effective_deadline, sleep (asyncio backend)",
                 "asyncio timers (call_at) and Task cancellation"],
        "stub": ["event loop clock and scheduling (SimLoop: virtual time; sub-mode late adds seeded late wake-ups)",
                 "set iteration order inside anyio (SimSet)"],
    }
    assumptions = [
        "asyncio backend only; uvloop not simulated",
        "a sleep that ends exactly at a visible deadline is a tie (two timers due in the same cycle, order unspecified): the "
        "reference follows the observed outcome there and only there",
        "excluded by the statement: explicit cancel() of fail_* scopes (not generated) and reassigning a fail_* deadline after "
        "it fired (skipped by interpreter and reference alike)",
        "tasks of one run are independent programs sharing the loop",
        "stall faults (clock advancing while callbacks are ready) are not injected here: a task woken by an already queued "
        "callback legitimately runs one step before an overdue deadline timer, which the exact reference cannot order; "
        "stalls are exercised by the SC engine, whose C03/C04 rules are robust to them",
    ]
    fault_kinds = ["deadline_fire", "deadline_move", "timer_tie", "late_wakeup"]
    budgets = {"quick": (400_000, 90), "thorough": (16_000_000, 1500)}
    rule_text = ("cases = 1-3/4 independent tasks, each a seeded nest (depth <= 4/5) of deadline scopes (5 kinds, delays "
                 "-0.125..2.0 or none, shields), sleeps (dyadic durations so ties are common), deadline reassignments "
                 "(earlier/later/past/infinity) and effective-deadline probes; 60% exact sub-mode, 40% late sub-mode; "
                 "distinct = SHA1 of the observed histories; non-trivial = at least one sleep was interrupted by a deadline")

    def bounds(self, tier):
        big = tier == "thorough"
        return {"tasks": [1, 4 if big else 3], "depth": 5 if big else 4, "statements_per_task": [6, 22 if big else 16],
                "durations": DUR, "delays": DELAYS}

    def gen_case(self, seed, tier):
        return gen_case(seed, tier)

    def run_case(self, case):
        return DeadlineRun(case).execute()

    def shrinks(self, case):
        return shrinks(case)
