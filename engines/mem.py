"""Engine MEM: memory object streams (C12 delivery, C13 closing / error truthfulness).

Sender and receiver tasks, each owning one clone, run seeded programs of send / send_nowait /
receive / receive_nowait / async-for / clone-and-swap / close with unique items; blocking
operations run in cancellable scopes that siblings and external loop callbacks cancel at seeded
cycles (biased to the hand-over cycle).  Oracles: conservation and order over the finished history,
FIFO service of blocked parties, buffer bound and clone counters at every record, and the truth of
every EndOfStream / BrokenResourceError / ClosedResourceError against the model's clone sets.
"""
from __future__ import annotations

import copy
import math
import random
from collections import Counter, defaultdict

from simkit.harness import History, LoopConfig, SimRun, anyio

from anyio import (BrokenResourceError, CancelScope, ClosedResourceError, EndOfStream, WouldBlock,
                   create_memory_object_stream, create_task_group, get_cancelled_exc_class, sleep)

DUR = [0, 0, 0.125, 0.125, 0.25]


class FalsyItem(tuple):
    """An item that is false in a boolean context (equal to and hashed like the plain tuple): whether something was
    received must never be decided by the truth value of the item."""

    def __bool__(self):
        return False
WAKE_LAT = 3


def gen_case(seed, tier, prop):
    rng = random.Random(seed)
    big = tier == "thorough"
    size = rng.choice([0, 0, 1, 1, 2, 3, "inf"])
    ns = rng.randint(1, 4 if big else 3)
    nr = rng.randint(1, 4 if big else 3)
    nsid = [0]

    def sid():
        nsid[0] += 1
        return nsid[0] - 1

    senders = []
    for i in range(ns):
        prog = []
        for _ in range(rng.randint(1, 7 if big else 5)):
            r = rng.random()
            if r < 0.5:
                prog.append(["send", sid()])
            elif r < 0.68:
                prog.append(["send_nw"])
            elif r < 0.85:
                prog.append(["sleep", rng.choice(DUR)])
            elif r < 0.92:
                prog.append(["swap"])
            elif r < 0.96 and nsid[0]:
                prog.append(["cancel", rng.randrange(nsid[0])])
            elif r < 0.98:
                prog.append(["send_closed"])
            else:
                prog.append(["close"])
        r = rng.random()
        prog.append(["close"] if r < 0.55 else ["aclose", rng.random() < 0.5] if r < (0.9 if prop == "C13" else 0.75) else ["sleep", 0])
        if rng.random() < 0.3:
            prog.append(["send", sid()])          # use after close -> ClosedResourceError
        if rng.random() < 0.2:
            prog.append(["close"])                # closing twice is a no-op
        senders.append(prog)
    receivers = []
    for j in range(nr):
        prog = []
        for _ in range(rng.randint(1, 8 if big else 6)):
            r = rng.random()
            if r < 0.5:
                prog.append(["recv", sid()] + (["sic"] if rng.random() < 0.08 else []))
            elif r < 0.65:
                prog.append(["recv_nw"])
            elif r < 0.8:
                prog.append(["sleep", rng.choice(DUR)])
            elif r < 0.87:
                prog.append(["iter", rng.randint(1, 3), sid()])
            elif r < 0.92:
                prog.append(["swap"])
            elif r < 0.96 and nsid[0]:
                prog.append(["cancel", rng.randrange(nsid[0])])
            elif r < 0.98:
                prog.append(["close"])
            else:
                prog.append(["aclose", rng.random() < 0.5])
        r = rng.random()
        if r < 0.5:
            prog.append(["drain", sid()])
        elif r < 0.7:
            prog.append(["aclose", rng.random() < 0.5])
        receivers.append(prog)
    ext = []
    native = rng.random() < 0.3       # this case also cancels whole tasks natively (asyncio Task.cancel())
    for _ in range(rng.randint(0, 6)):
        t = rng.choice([0, 0.125, 0.125, 0.25, 0.25, 0.375, 0.5, 0.75])
        if rng.random() < 0.2:
            ext.append([t, "close", "S%d" % rng.randrange(ns)])      # closed by somebody else, even mid-send
        elif native and rng.random() < 0.4:
            ext.append([t, "ncancel", rng.choice(["S%d" % rng.randrange(ns), "R%d" % rng.randrange(nr)])])
        elif nsid[0]:
            ext.append([t, "cancel", rng.randrange(nsid[0])])
    ext.sort(key=lambda e: e[0])
    loop = LoopConfig(eager=rng.random() < 0.3, cap=8000, p_late=rng.choice([0, 0, 0.2]),
                      p_stall=rng.choice([0, 0, 0.05])).to_json()
    # 1 case in 40 of those with native cancellations may also cancel a receiver that has possibly been handed an
    # item already (known finding F17); all the others only cancel receivers that are provably still queued
    return {"engine": "mem", "prop": prop, "size": size, "senders": senders, "receivers": receivers, "ext": ext,
            "loop": loop, "sched_seed": rng.getrandbits(32),
            "unguarded_native": bool(native and prop == "C12" and rng.random() < 0.05)}


class MemRun:
    def __init__(self, case):
        self.case = case
        self.prop = case["prop"]
        self.sim = SimRun(case["sched_seed"], LoopConfig.from_json(case["loop"]))
        self.faults = self.sim.faults
        self.h = History()
        self.viol = []
        self.probes = Counter()
        self.nontrivial = False
        self.scopes = {}
        self.sc_op = {}             # sid -> op record (dict) currently running in that scope
        self.cancelled = set()
        self.open_s = set()         # model: labels of open send clones
        self.open_r = set()
        self.accepted = {}          # item -> seq of acceptance
        self.cancelled_sends = set()
        self.failed_sends = set()
        self.received = defaultdict(list)    # receiver label -> [(item, seq)]
        self.pending = {}           # op id -> op record
        self.nop = 0
        self.last_s_close = None    # (seq, iteration) when the last send clone was closed
        self.last_r_close = None
        self.done = 0
        self.task_obj = {}
        self.ncancelled = set()
        self.unguarded_native = 0

    def v(self, rule, detail, sig=None):
        prop = rule.split(".")[0]
        if prop != self.prop:
            return
        if len(self.viol) < 10:
            lp = self.sim.loop
            self.viol.append({"rule": rule, "sig": sig or rule,
                              "detail": f"[buffer={self.case['size']}] {detail} (seq={self.h.seq}, iteration={lp.iterations if lp else '?'})"})

    # -- observation at every record -----------------------------------------------------------
    def observe(self, where):
        st = self.s0.statistics()
        if st.current_buffer_used > self.size:
            self.v("C12.bound", f"{where}: buffer holds {st.current_buffer_used} items, max_buffer_size={self.size}")
        if st.open_send_streams != len(self.open_s) or st.open_receive_streams != len(self.open_r):
            self.v("C13.counts", f"{where}: statistics() reports open_send_streams={st.open_send_streams} "
                                 f"open_receive_streams={st.open_receive_streams}, model has {len(self.open_s)} / {len(self.open_r)}")
        it = self.sim.loop.iterations
        if not self.open_s and self.last_s_close is not None and it - self.last_s_close[1] > WAKE_LAT:
            for o in self.pending.values():
                if o["kind"] == "recv" and not o["cp"] and o["begin"] < self.last_s_close[0] and o["blocked_since"] is not None:
                    self.v("C13.not_woken", f"{where}: receive on {o['label']} (began seq {o['begin']}) is still blocked "
                                            f"{it - self.last_s_close[1]} loop cycles after the last send clone was closed")
                    break
        if not self.open_r and self.last_r_close is not None and it - self.last_r_close[1] > WAKE_LAT:
            for o in self.pending.values():
                if o["kind"] == "send" and not o["cp"] and o["begin"] < self.last_r_close[0] and o["blocked_since"] is not None:
                    self.v("C13.not_woken", f"{where}: send on {o['label']} (began seq {o['begin']}) is still blocked "
                                            f"{it - self.last_r_close[1]} loop cycles after the last receive clone was closed")
                    break
        if st.current_buffer_used:
            # an item sits in the buffer while a receiver is parked (allowed only transiently for receivers
            # whose cancellation is pending) - whether or not the stream still counts that receiver as waiting
            # A receive that is blocked while the buffer holds something must already have been handed its item (a
            # parked receiver gets items directly, and a new one takes from the buffer first), so it completes within a
            # cycle or two of this sighting.
            live = [o for o in self.pending.values() if o["kind"] == "recv" and not o["cp"] and o["blocked_since"] is not None
                    and o["label"] in self.open_r and not o["closed_at_begin"] and it > o["blocked_since"]]
            # (it > blocked_since: the call is past receive()'s initial checkpoint, i.e. it has looked at the buffer)
            for o in live:
                o.setdefault("buffer_seen_it", it)
        for o in self.pending.values():
            seen = o.get("buffer_seen_it")
            if seen is not None and not o["cp"] and it - seen > WAKE_LAT and o["label"] in self.open_r:
                self.v("C12.stranded", f"{where}: receive on {o['label']} (began seq {o['begin']}, never cancelled) is still blocked "
                                       f"{it - seen} loop cycles after an item was seen sitting in the buffer")
                break

    def begin(self, kind, label, handle, sid=None, item=None):
        self.nop += 1
        lp = self.sim.loop
        op = {"id": self.nop, "kind": kind, "label": label, "sid": sid, "item": item, "cp": sid in self.cancelled,
              "begin": self.h.rec(kind + "_begin", label, item)[0], "it": lp.iterations,
              "closed_at_begin": label not in (self.open_s if kind == "send" else self.open_r),
              "blocked_since": lp.iterations + 1, "other_closed_at_begin": not (self.open_r if kind == "send" else self.open_s)}
        self.pending[op["id"]] = op
        if sid is not None:
            self.sc_op[sid] = op
        return op

    def end(self, op, outcome, value=None):
        lp = self.sim.loop
        r = self.h.rec(op["kind"] + "_end", op["label"], outcome, value)
        op["end"] = r[0]
        op["end_it"] = lp.iterations
        op["outcome"] = outcome
        del self.pending[op["id"]]
        if op["sid"] is not None:
            self.sc_op.pop(op["sid"], None)
        kind = op["kind"]
        if outcome == "closed":
            if not op["closed_at_begin"] and op["label"] in (self.open_s if kind == "send" else self.open_r):
                self.v("C13.closed_error", f"{kind} on open handle {op['label']} raised ClosedResourceError")
            else:
                self.probes["closed_error_on_closed_handle"] += 1
        elif op["closed_at_begin"] and outcome != "cancelled":
            self.v("C13.closed_error", f"{kind} on handle {op['label']}, closed before the call, ended with {outcome} "
                                       f"instead of ClosedResourceError")
        if outcome == "eos":
            st = self.s0.statistics()
            if self.open_s or st.current_buffer_used or st.tasks_waiting_send:
                self.v("C13.eos", f"receive on {op['label']} raised EndOfStream while send clones {sorted(self.open_s)} are open "
                                  f"/ {st.current_buffer_used} item(s) buffered / {st.tasks_waiting_send} sender(s) pending")
            else:
                self.probes["eos_truthful"] += 1
            self.wake_check(op, self.last_s_close, "EndOfStream")
        elif outcome == "broken":
            if self.open_r:
                self.v("C13.broken", f"send on {op['label']} raised BrokenResourceError while receive clones "
                                     f"{sorted(self.open_r)} are open")
            else:
                self.probes["broken_truthful"] += 1
            self.wake_check(op, self.last_r_close, "BrokenResourceError")
        elif outcome == "ok" and kind == "send":
            self.accepted[op["item"]] = r[0]
            if self.case.get("unguarded_native") and not self.unguarded_native:
                # directed fault for known finding F17: this send may just have handed its item to the first blocked
                # receiver; cancel that receiver natively now, before it resumes
                blocked = [o for o in self.pending.values() if o["kind"] == "recv" and o["blocked_since"] is not None]
                cands = [o for o in blocked if not o["cp"]]
                if cands and self.s0.statistics().tasks_waiting_receive < len(blocked):
                    self.do_ncancel("harness", min(cands, key=lambda o: o["begin"])["label"])
            if op["other_closed_at_begin"]:
                self.v("C13.broken", f"send on {op['label']} succeeded although every receive clone had been closed before the call")
            self.fifo_check(op)
        elif outcome == "ok" and kind == "recv":
            self.received[op["label"]].append((value, r[0]))
            self.fifo_check(op)
        elif outcome == "cancelled" and kind == "send":
            self.cancelled_sends.add(op["item"])
        self.observe("after " + kind)

    def wake_check(self, op, close_at, what):
        if close_at is None or op["cp"]:
            return
        if close_at[0] > op["begin"]:
            lat = op["end_it"] - close_at[1]
            self.probes["woken_by_close"] += 1
            if lat > WAKE_LAT:
                self.v("C13.late_wakeup", f"{op['kind']} on {op['label']} got {what} {lat} loop cycles after the last "
                                          f"peer clone was closed")

    def fifo_check(self, op):
        """Blocked parties are served in the order they started waiting.  Judged at grant time, not at return
        time: a party that was already served but has not resumed yet may be passed by a later caller that
        completes immediately; it then returns at most one loop cycle later.  So a party P (never cancel-pending)
        is overtaken iff a later caller completed while P kept waiting for more than one further cycle."""
        for o in self.pending.values():
            if o["kind"] == op["kind"] and o["begin"] < op["begin"] and not o["cp"] and not o["closed_at_begin"] \
                    and o["blocked_since"] is not None and (op["blocked_since"] is not None or o["it"] + 1 < op["it"]):
                o.setdefault("passed_by", []).append((op["label"], op["begin"], op["end_it"]))
        for who, b, e_it in op.get("passed_by", ()):
            if not op["cp"] and op["end_it"] > e_it + 1:
                self.v("C12.fifo", f"{op['kind']} by {who} (began seq {b}) was served in loop cycle {e_it} while {op['label']} "
                                   f"(began seq {op['begin']}, never cancelled) kept waiting until cycle {op['end_it']}")
                return

    # -- external / sibling actions --------------------------------------------------------------
    def do_cancel(self, by, sid):
        sc = self.scopes.get(sid)
        if sc is None or sid in self.cancelled or getattr(self, "finished", False):
            return
        self.cancelled.add(sid)
        op = self.sc_op.get(sid)
        self.h.rec("cancel", by, sid)
        sc.cancel()
        if op is not None:
            op["cp"] = True
            self.faults["cancel_blocked_" + op["kind"]] += 1
            self.nontrivial = True
        self.observe("after cancel")

    def do_ncancel(self, by, label):
        """Native asyncio cancellation of a whole sender / receiver task (asyncio.wait_for, asyncio.timeout, a foreign
        framework).  A blocked receiver is only cancelled while it is provably still queued (every blocked receive of
        the harness is counted in tasks_waiting_receive, so nobody has been handed an item or skipped): anyio protects
        that case (the next send skips a receiver with a pending cancellation).  What it cannot protect - a native
        cancellation that arrives after the hand-over, before the receiver has resumed - is known finding F17 and is
        generated only in cases flagged `unguarded_native`."""
        t = self.task_obj.get(label)
        if t is None or t.done() or label in self.ncancelled or label == by or getattr(self, "finished", False):
            return
        ops = [o for o in self.pending.values() if o["label"] == label and o["blocked_since"] is not None]
        op = ops[0] if ops else None
        if op is not None and op["kind"] == "recv":
            blocked = sum(1 for o in self.pending.values() if o["kind"] == "recv" and o["blocked_since"] is not None)
            if self.s0.statistics().tasks_waiting_receive != blocked or op["cp"]:
                if not self.case.get("unguarded_native"):
                    return
                self.unguarded_native += 1
        self.ncancelled.add(label)
        self.h.rec("native_cancel", by, label)
        t.cancel()
        if op is not None:
            op["cp"] = True
            self.faults["native_cancel_blocked_" + op["kind"]] += 1
            self.nontrivial = True
        else:
            self.faults["native_cancel_other"] += 1
        self.observe("after native cancel")

    # -- programs ------------------------------------------------------------------------------------
    async def main(self):
        self.h.loop = loop = self.sim.loop
        case = self.case
        self.size = math.inf if case["size"] == "inf" else case["size"]
        self.s0, self.r0 = create_memory_object_stream(self.size)
        self.shandles = {}
        self.rhandles = {}
        for i in range(len(case["senders"])):
            self.shandles["S%d" % i] = self.s0 if i == 0 else self.s0.clone()
            self.open_s.add("S%d" % i)
        for j in range(len(case["receivers"])):
            self.rhandles["R%d" % j] = self.r0 if j == 0 else self.r0.clone()
            self.open_r.add("R%d" % j)
        self.busy = set()
        self.ntasks = len(case["senders"]) + len(case["receivers"])
        for t, what, arg in case["ext"]:
            if what == "cancel":
                loop.call_external_at(t, self.do_cancel, "ext", arg)
            elif what == "ncancel":
                loop.call_external_at(t, self.do_ncancel, "ext", arg)
            else:
                loop.call_external_at(t, self.ext_close, arg)
        self.jh = loop.call_at(6.0, self.janitor)
        self.observe("start")
        async with create_task_group() as tg:
            for i, prog in enumerate(case["senders"]):
                tg.start_soon(self.sender, "S%d" % i, prog, name="S%d" % i)
            for j, prog in enumerate(case["receivers"]):
                tg.start_soon(self.receiver, "R%d" % j, prog, name="R%d" % j)
        self.jh.cancel()
        self.finished = True
        self.final_checks()

    def janitor(self):
        """Termination discipline: cancel whatever still waits and close the handles of finished tasks."""
        self.observe("janitor")
        for sid in sorted(self.scopes):
            self.do_cancel("janitor", sid)
        for lab in sorted(self.open_s):
            if lab not in self.busy:
                self.close_handle(lab, "janitor")
        for lab in sorted(self.open_r):
            if lab not in self.busy:
                self.close_handle(lab, "janitor")
        self.jh = self.sim.loop.call_at(self.sim.loop.time() + 1.0, self.janitor)

    def ext_close(self, label):
        if label in self.open_s and not getattr(self, "finished", False):
            pend = [o for o in self.pending.values() if o["kind"] == "send" and o["label"] == label]
            if pend:
                self.faults["close_handle_with_send_in_flight"] += 1
                self.nontrivial = True
            self.close_handle(label, "ext")

    async def aclose_handle(self, label, cancelled):
        """aclose() - also from a task whose scope is already cancelled: an async resource must be closed
        by aclose() even then."""
        if label not in (self.open_s if label[0] == "S" else self.open_r):
            return
        h = (self.shandles if label[0] == "S" else self.rhandles)[label]
        # model: the clone counts as closed from here on
        self.mark_closed(label, label)
        with CancelScope() as sc:
            if cancelled:
                sc.cancel()
                self.faults["aclose_in_cancelled_scope"] += 1
            await h.aclose()
        self.observe("after aclose")

    def mark_closed(self, label, by):
        lp = self.sim.loop
        side = self.open_s if label[0] == "S" else self.open_r
        side.discard(label)
        self.h.rec("close", by, label)
        st = self.s0.statistics()
        if not side:
            if label[0] == "S":
                self.last_s_close = (self.h.seq, lp.iterations)
                if st.tasks_waiting_receive:
                    self.faults["close_last_sender_with_blocked_receivers"] += 1
                    self.nontrivial = True
            else:
                self.last_r_close = (self.h.seq, lp.iterations)
                if st.tasks_waiting_send:
                    self.faults["close_last_receiver_with_blocked_senders"] += 1
                    self.nontrivial = True

    def close_handle(self, label, by):
        lp = self.sim.loop
        if label[0] == "S":
            if label in self.open_s:
                self.open_s.discard(label)
                self.h.rec("close", by, label)
                st = self.s0.statistics()
                if not self.open_s:
                    self.last_s_close = (self.h.seq, lp.iterations)
                    if st.tasks_waiting_receive:
                        self.faults["close_last_sender_with_blocked_receivers"] += 1
                        self.nontrivial = True
                self.shandles[label].close()
                self.observe("after close")
            else:
                self.shandles[label].close()          # closing twice is a no-op
        else:
            if label in self.open_r:
                self.open_r.discard(label)
                self.h.rec("close", by, label)
                st = self.s0.statistics()
                if not self.open_r:
                    self.last_r_close = (self.h.seq, lp.iterations)
                    if st.tasks_waiting_send:
                        self.faults["close_last_receiver_with_blocked_senders"] += 1
                        self.nontrivial = True
                self.rhandles[label].close()
                self.observe("after close")
            else:
                self.rhandles[label].close()

    async def sender(self, label, prog):
        import asyncio
        self.busy.add(label)
        self.task_obj[label] = asyncio.current_task()
        seqno = 0
        try:
            for st in prog:
                op = st[0]
                if op == "sleep":
                    await sleep(st[1])
                elif op == "cancel":
                    self.do_cancel(label, st[1])
                elif op == "close":
                    self.close_handle(label, label)
                elif op == "aclose":
                    await self.aclose_handle(label, st[1])
                elif op == "swap":
                    if label in self.open_s:
                        new = self.shandles[label].clone()
                        self.shandles[label].close()
                        self.shandles[label] = new
                        self.h.rec("swap", label)
                        self.observe("after clone+close")
                elif op == "send_nw":
                    item = (label, seqno) if seqno % 3 != 2 else FalsyItem((label, seqno))
                    seqno += 1
                    o = self.begin("send", label, None, item=item)
                    o["blocked_since"] = None
                    try:
                        self.shandles[label].send_nowait(item)
                    except WouldBlock:
                        self.failed_sends.add(item)
                        self.end(o, "wouldblock")
                    except ClosedResourceError:
                        self.end(o, "closed")
                    except BrokenResourceError:
                        self.end(o, "broken")
                    else:
                        self.end(o, "ok")
                elif op in ("send", "send_closed"):
                    if op == "send_closed" and label in self.open_s:
                        continue
                    item = (label, seqno) if seqno % 3 != 2 else FalsyItem((label, seqno))
                    seqno += 1
                    sid = st[1] if len(st) > 1 else None
                    sc = CancelScope()
                    if sid is not None:
                        self.scopes[sid] = sc
                    o = None
                    try:
                        with sc:
                            o = self.begin("send", label, None, sid=sid, item=item)
                            try:
                                await self.shandles[label].send(item)
                            except get_cancelled_exc_class():
                                self.end(o, "cancelled")
                                raise
                            except ClosedResourceError:
                                self.end(o, "closed")
                            except BrokenResourceError:
                                self.end(o, "broken")
                            else:
                                self.end(o, "ok")
                    finally:
                        self.scopes.pop(sid, None)
        except __import__("asyncio").CancelledError:
            if label not in self.ncancelled:      # a native cancellation ends this task only (see engines/permits.py)
                raise
        finally:
            self.busy.discard(label)
            self.done += 1

    async def do_recv(self, label, sid, shape=None):
        if shape == "sic":
            # the receive runs behind a shield inside an already cancelled scope (clean-up code waiting for a last
            # message): it is not cancelled, so it has to be served like any other receiver
            self.faults["receive_behind_shield_in_cancelled_scope"] += 1
            with CancelScope() as outer:
                outer.cancel()
                with CancelScope(shield=True):
                    return await self.do_recv(label, sid)
        sc = CancelScope()
        self.cancelled.discard(sid)
        self.scopes[sid] = sc
        res = None
        try:
            with sc:
                o = self.begin("recv", label, None, sid=sid)
                try:
                    item = await self.rhandles[label].receive()
                except get_cancelled_exc_class():
                    self.end(o, "cancelled")
                    raise
                except ClosedResourceError:
                    self.end(o, "closed")
                    res = "stop"
                except EndOfStream:
                    self.end(o, "eos")
                    res = "stop"
                else:
                    self.end(o, "ok", item)
                    res = "item"
        finally:
            self.scopes.pop(sid, None)
        return res

    async def receiver(self, label, prog):
        import asyncio
        self.busy.add(label)
        self.task_obj[label] = asyncio.current_task()
        try:
            for st in prog:
                op = st[0]
                if op == "sleep":
                    await sleep(st[1])
                elif op == "cancel":
                    self.do_cancel(label, st[1])
                elif op == "close":
                    self.close_handle(label, label)
                elif op == "aclose":
                    await self.aclose_handle(label, st[1])
                elif op == "swap":
                    if label in self.open_r:
                        new = self.rhandles[label].clone()
                        self.rhandles[label].close()
                        self.rhandles[label] = new
                        self.h.rec("swap", label)
                        self.observe("after clone+close")
                elif op == "recv_nw":
                    o = self.begin("recv", label, None)
                    o["blocked_since"] = None
                    try:
                        item = self.rhandles[label].receive_nowait()
                    except WouldBlock:
                        st_ = self.s0.statistics()
                        if st_.current_buffer_used or st_.tasks_waiting_send:
                            self.v("C12.nowait", f"receive_nowait on {label} raised WouldBlock with {st_.current_buffer_used} "
                                                 f"buffered item(s) / {st_.tasks_waiting_send} blocked sender(s)")
                        self.end(o, "wouldblock")
                    except ClosedResourceError:
                        self.end(o, "closed")
                    except EndOfStream:
                        self.end(o, "eos")
                    else:
                        self.end(o, "ok", item)
                elif op == "recv":
                    if await self.do_recv(label, st[1], st[2] if len(st) > 2 else None) == "stop":
                        pass
                elif op == "iter":
                    n = st[1]
                    sid = st[2]
                    sc = CancelScope()
                    self.scopes[sid] = sc
                    try:
                        with sc:
                            o = self.begin("recv", label, None, sid=sid)
                            try:
                                async for item in self.rhandles[label]:
                                    self.end(o, "ok", item)
                                    n -= 1
                                    if n <= 0:
                                        o = None
                                        break
                                    o = self.begin("recv", label, None, sid=sid)
                                else:
                                    self.end(o, "eos")
                                    o = None
                            except get_cancelled_exc_class():
                                if o is not None:
                                    self.end(o, "cancelled")
                                raise
                            except ClosedResourceError:
                                self.end(o, "closed")
                    finally:
                        self.scopes.pop(sid, None)
                elif op == "drain":
                    for _ in range(12):
                        if await self.do_recv(label, st[1]) != "item":
                            break
        except __import__("asyncio").CancelledError:
            if label not in self.ncancelled:      # a native cancellation ends this task only (see engines/permits.py)
                raise
        finally:
            self.busy.discard(label)
            self.done += 1

    def final_checks(self):
        # whatever is still buffered stays in the stream (the receiving side is closed or nobody reads on)
        left = []
        if self.open_r:
            lab = sorted(self.open_r)[0]
            while True:
                try:
                    left.append(self.rhandles[lab].receive_nowait())
                except (WouldBlock, EndOfStream):
                    break
        else:
            n = self.s0.statistics().current_buffer_used
            left = [None] * 0
            self.left_unknown = n
        got = Counter()
        for lab, lst in self.received.items():
            for item, _ in lst:
                got[item] += 1
        for item in left:
            got[item] += 1
        unknown = getattr(self, "left_unknown", 0)
        missing = [it for it in self.accepted if got[it] == 0]
        for item, n in got.items():
            if n > 1:
                self.v("C12.duplicate", f"item {item} was delivered {n} times")
            if item not in self.accepted and item not in self.cancelled_sends:
                self.v("C12.invented", f"item {item} was delivered although its send did not succeed "
                                       f"({'WouldBlock' if item in self.failed_sends else 'unknown item'})")
        if len(missing) > unknown:
            f17 = 0 < len(missing) - unknown <= self.unguarded_native
            self.v("C12.lost", f"accepted item(s) {missing[:5]} were neither received nor left in the buffer "
                               f"({unknown} items remain in a stream whose receive side is closed"
                               + (f"; {self.unguarded_native} blocked receive(s) were cancelled natively after an item may "
                                  f"already have been handed to them" if f17 else "") + ")",
                   sig="C12.lost:native-cancel-after-handover" if f17 else None)
        elif self.accepted:
            self.probes["conservation_checked"] += 1
        for lab, lst in self.received.items():
            per = defaultdict(list)
            for (item, _s) in lst:
                per[item[0]].append(item[1])
            for src, ks in per.items():
                if ks != sorted(ks):
                    self.v("C12.order", f"receiver {lab} got items of sender {src} out of order: {ks}")
        for h in list(self.shandles.values()) + list(self.rhandles.values()):
            h.close()

    def execute(self):
        sim = self.sim
        sim.run(self.main)
        if sim.outcome == "deadlock":
            blocked = [(o["kind"], o["label"]) for o in self.pending.values()]
            self.v("C13.stuck", f"would block forever: {sim.error}; blocked operations: {blocked}; open send clones "
                                f"{sorted(self.open_s)}, open receive clones {sorted(self.open_r)}")
            self.v("C12.stuck", f"would block forever: {sim.error}; blocked operations: {blocked}")
        elif sim.outcome == "itercap":
            self.v("C13.stuck", f"iteration cap: {sim.error}")
            self.v("C12.stuck", f"iteration cap: {sim.error}")
        elif sim.outcome == "exc":
            import traceback
            tb = "".join(traceback.format_exception(sim.error))[-1500:]
            self.v(self.prop + ".error", f"unexpected exception out of legitimate API use: {sim.error!r}\n{tb}")
        loop = sim.loop
        return {"violations": self.viol, "digest": self.h.digest(), "faults": dict(self.faults),
                "nontrivial": self.nontrivial, "vtime": loop._vnow if loop else 0.0,
                "iters": loop.iterations if loop else 0, "steps": self.h.seq, "probes": dict(self.probes),
                "cfg": [("eager" if self.case["loop"]["eager"] else "stock") + ":buf=" + str(self.case["size"])],
                "history_text": self.h.text()}


def shrinks(case):
    for side in ("senders", "receivers"):
        for i in range(len(case[side])):
            if len(case[side]) > 1:
                c = copy.deepcopy(case)
                del c[side][i]
                yield c
    for i in range(len(case["ext"])):
        c = copy.deepcopy(case)
        del c["ext"][i]
        yield c
    for side in ("senders", "receivers"):
        for i, prog in enumerate(case[side]):
            for j in range(len(prog)):
                c = copy.deepcopy(case)
                del c[side][i][j]
                yield c
    for side in ("senders", "receivers"):
        for i, prog in enumerate(case[side]):
            for j, st in enumerate(prog):
                if st[0] == "sleep" and st[1]:
                    c = copy.deepcopy(case)
                    c[side][i][j][1] = 0
                    yield c
    for key, val in (("eager", False), ("p_late", 0), ("p_stall", 0)):
        if case["loop"].get(key):
            c = copy.deepcopy(case)
            c["loop"][key] = val
            yield c


class MemCheck:
    engine = "mem"
    level = "exploration"
    components = {
        "real": ["anyio memory object streams (send/receive/*_nowait/clone/close/async for)", "anyio Event, CancelScope, TaskGroup",
                 "asyncio Task/Future"],
        "stub": ["event loop scheduling and clock (SimLoop)", "set iteration order inside anyio (SimSet)"],
    }
    assumptions = [
        "asyncio backend only; uvloop not simulated",
        "receive handles are only closed / swapped by their owner task between operations; send handles are additionally closed "
        "by external callbacks while a send() on them may be blocked (its item is then a pending item that must still be "
        "delivered); native Task.cancel() of a receiver after hand-over is not generated",
        "aclose() counts as closing the clone even when the calling task's scope is already cancelled",
        "FIFO service is judged for blocked parties that never had a cancellation pending",
        "wake-up after closing the last peer clone within %d loop cycles" % WAKE_LAT,
    ]
    fault_kinds = ["close_handle_with_send_in_flight", "aclose_in_cancelled_scope", "cancel_blocked_send", "cancel_blocked_recv", "close_last_sender_with_blocked_receivers",
                   "close_last_receiver_with_blocked_senders", "timer_tie", "late_wakeup", "stall", "external_cb"]

    def __init__(self, prop):
        self.prop = prop
        self.budgets = {"quick": (400_000, 90), "thorough": (16_000_000, 1500)}
        self.rule_text = (
            "cases = seeded programs: 1-3/4 sender clones x 1-5/7 statements (send in a cancellable scope, send_nowait, "
            "clone-and-swap, close, use after close) and 1-3/4 receiver clones x 1-6/8 statements (receive, receive_nowait, "
            "async for, swap, close, drain), buffer size 0/1/2/3/inf, unique items, sibling and external cancels at seeded "
            "cycles and ready-queue positions, stock/eager; distinct = SHA1 of the event history; non-trivial = a cancel "
            "request landed on a blocked send/receive, or the last clone of a side was closed while the other side had "
            "blocked tasks")

    def bounds(self, tier):
        big = tier == "thorough"
        return {"sender_clones": [1, 4 if big else 3], "receiver_clones": [1, 4 if big else 3],
                "statements": [1, 8 if big else 6], "buffer_sizes": [0, 1, 2, 3, "inf"], "external_actions": [0, 6]}

    def gen_case(self, seed, tier):
        return gen_case(seed, tier, self.prop)

    def run_case(self, case):
        return MemRun(case).execute()

    def shrinks(self, case):
        return shrinks(case)
