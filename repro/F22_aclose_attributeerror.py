"""F22 with real sockets on the stock loop: SocketStream.aclose() while a send() is in flight raises AttributeError when the
write buffer drains during aclose()'s single yield (before 1ba0b1a; about 1 attempt in 40 here).  PYTHONPATH=<tree>/src."""
import anyio, random, sys
async def attempt(delay):
    listener = await anyio.create_tcp_listener(local_host="127.0.0.1")
    port = listener.extra(anyio.abc.SocketAttribute.local_port)
    out = {}
    async def serve():
        async def h(s):
            try:
                while True:
                    await s.receive(65536)
            except (anyio.EndOfStream, anyio.BrokenResourceError, anyio.ClosedResourceError):
                pass
        await listener.serve(h)
    async with anyio.create_task_group() as tg:
        tg.start_soon(serve)
        client = await anyio.connect_tcp("127.0.0.1", port)
        async def sender():
            try:
                while True:
                    await client.send(b"x" * 3_000_000)
            except (anyio.ClosedResourceError, anyio.BrokenResourceError):
                pass
        tg.start_soon(sender)
        await anyio.sleep(delay)
        try:
            await client.aclose()
        except BaseException as e:
            out["aclose"] = repr(e)
        await anyio.sleep(0.01)
        tg.cancel_scope.cancel()
    await listener.aclose()
    return out
async def main():
    rnd = random.Random(1)
    for i in range(300):
        r = await attempt(rnd.choice([0.001, 0.002, 0.003, 0.005, 0.008]))
        if r:
            print("attempt", i, r); return
    print("no error in 300 attempts")
anyio.run(main)
