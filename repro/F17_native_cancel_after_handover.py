"""F17 on the stock loop: a blocked receive() that is cancelled natively (asyncio Task.cancel(), e.g. by asyncio.wait_for)
after send_nowait() has handed it the item, but before it has resumed, loses the item.  PYTHONPATH=<tree>/src."""
import asyncio, anyio
async def main():
    s, r = anyio.create_memory_object_stream(0)
    got = []
    async def recv():
        got.append(await r.receive())
    t = asyncio.ensure_future(recv())
    await asyncio.sleep(0.01)
    s.send_nowait("item")     # handed to the blocked receiver
    t.cancel()                # native cancellation in the same cycle, after the hand-over
    try:
        await t
    except asyncio.CancelledError:
        pass
    print("receiver got", got, "stats", r.statistics())
    try:
        print("left in stream:", r.receive_nowait())
    except anyio.WouldBlock:
        print("nothing left in the stream -> item lost" if not got else "ok")
asyncio.run(main())
