"""F21 with real sockets on the stock loop: a TCP send() held back by the peer returns normally when another task closes
the stream, although most of its data was discarded (before 009a0e2).  PYTHONPATH=<tree>/src."""
import anyio, socket
async def main():
    listener = await anyio.create_tcp_listener(local_host="127.0.0.1")
    port = listener.extra(anyio.abc.SocketAttribute.local_port)
    accepted = []
    async def serve():
        async def h(s):
            accepted.append(s)          # never reads
            await anyio.sleep(2)
        await listener.serve(h)
    result = {}
    async with anyio.create_task_group() as tg:
        tg.start_soon(serve)
        client = await anyio.connect_tcp("127.0.0.1", port)
        async def sender():
            try:
                await client.send(b"x" * 50_000_000)      # far more than the kernel buffers hold: blocks
                result["send"] = "returned normally"
            except BaseException as e:
                result["send"] = type(e).__name__
        tg.start_soon(sender)
        await anyio.sleep(0.3)
        await client.aclose()                              # closed locally by another task while send() is blocked
        await anyio.sleep(0.2)
        tg.cancel_scope.cancel()
    print("send() blocked by back-pressure, stream closed locally meanwhile ->", result)
anyio.run(main)
