"""F15 with real OS threads (no simulator): cancel portal futures from a foreign thread while their tasks finish.
On the unfixed tree (before 0f01dd1) roughly one 90 s run in three ends with "portal died"; PYTHONPATH=<tree>/src."""
import sys, time, threading
import anyio
from anyio.from_thread import start_blocking_portal
sys.setswitchinterval(1e-6)
async def quick():
    await anyio.sleep(0)
    return 1
def main():
    t0 = time.time(); n = 0
    try:
        with start_blocking_portal() as portal:
            while time.time() - t0 < 90:
                try:
                    fs = [portal.start_task_soon(quick) for _ in range(20)]
                    for f in fs:
                        f.cancel()
                    n += 20
                    portal.call(lambda: None)
                except RuntimeError as e:
                    print("portal died:", e, "after", n, "calls", round(time.time()-t0,1), "s"); break
    except BaseException as e:
        print("start_blocking_portal raised:", repr(e), getattr(e, "exceptions", None)); return 1
    print("no failure in", n); return 0
sys.exit(main())
